"""Air-interface simulation shared by C07 and C08.

Transmitter side: burst factory using the real encoders (BPTC, trellis, RS(12,9), Golay, QR)
and the real TransmissionGenerator.  Channel: 33-byte bursts.  Receiver side: real
Burst.from_bytes -> TransmissionWatcher.process_burst -> Terminal -> Timeslot -> Transmission
with recording observers.  Seams: transmission.secrets, timeslot.time, stdout.
"""
import io
import sys

from dsim import core
from dsim.pristine import Watchdog


# ------------------------------------------------------------------ transmitter side (generation phase)


def _imports():
    global bitarray, int2ba, Burst, BurstTypes, DataTypes, SyncPatterns, DataPacketFormats, SAPIdentifier, FullMessageFlag
    global ResynchronizeFlag, FLCOs, CsbkOpcodes, CrcMasks, DataHeader, CSBK, SlotType, EmbeddedSignalling, Rate12Data, Rate34Data
    global Rate1Data, ReedSolomon1294, BPTC19696, Trellis34, TransmissionGenerator, CRC32
    from bitarray import bitarray
    from bitarray.util import int2ba
    from okdmr.dmrlib.etsi.crc.crc32 import CRC32
    from okdmr.dmrlib.etsi.fec.bptc_196_96 import BPTC19696
    from okdmr.dmrlib.etsi.fec.reed_solomon_12_9_4 import ReedSolomon1294
    from okdmr.dmrlib.etsi.fec.trellis import Trellis34
    from okdmr.dmrlib.etsi.layer2.burst import Burst
    from okdmr.dmrlib.etsi.layer2.elements.burst_types import BurstTypes
    from okdmr.dmrlib.etsi.layer2.elements.crc_masks import CrcMasks
    from okdmr.dmrlib.etsi.layer2.elements.csbk_opcodes import CsbkOpcodes
    from okdmr.dmrlib.etsi.layer2.elements.data_packet_formats import DataPacketFormats
    from okdmr.dmrlib.etsi.layer2.elements.data_types import DataTypes
    from okdmr.dmrlib.etsi.layer2.elements.flcos import FLCOs
    from okdmr.dmrlib.etsi.layer2.elements.full_message_flag import FullMessageFlag
    from okdmr.dmrlib.etsi.layer2.elements.resynchronize_flag import ResynchronizeFlag
    from okdmr.dmrlib.etsi.layer2.elements.sap_identifier import SAPIdentifier
    from okdmr.dmrlib.etsi.layer2.elements.sync_patterns import SyncPatterns
    from okdmr.dmrlib.etsi.layer2.pdu.csbk import CSBK
    from okdmr.dmrlib.etsi.layer2.pdu.data_header import DataHeader
    from okdmr.dmrlib.etsi.layer2.pdu.embedded_signalling import EmbeddedSignalling
    from okdmr.dmrlib.etsi.layer2.pdu.rate12_data import Rate12Data
    from okdmr.dmrlib.etsi.layer2.pdu.rate1_data import Rate1Data
    from okdmr.dmrlib.etsi.layer2.pdu.rate34_data import Rate34Data
    from okdmr.dmrlib.etsi.layer2.pdu.slot_type import SlotType
    from okdmr.dmrlib.transmission.transmission_generator import TransmissionGenerator


def preload():
    _imports()
    import okdmr.dmrlib.transmission.transmission_watcher  # noqa


DATA_SYNCS = ["BsSourcedData", "MsSourcedData", "Tdma1Data", "Tdma2Data"]
VOICE_SYNCS = ["BsSourcedVoice", "MsSourcedVoice", "Tdma1Voice", "Tdma2Voice"]
TAB = {("R1", True): (22, 18), ("R1", False): (24, 20), ("R12", True): (10, 6), ("R12", False): (12, 8),
       ("R34", True): (16, 12), ("R34", False): (18, 14)}


def rate_class(name):
    return {"R12": Rate12Data, "R34": Rate34Data, "R1": Rate1Data}[name]


def data_burst(info196, dt, cc, sync="BsSourcedData"):
    st = SlotType(colour_code=cc, data_type=dt).as_bits()
    return (info196[:98] + st[:10] + SyncPatterns[sync].as_bits() + st[10:] + info196[98:]).tobytes()


LC_FLCOS = ["GroupVoiceChannelUser", "UnitToUnitVoiceChannelUser", "TalkerAliasHeader", "TalkerAliasBlock1", "TalkerAliasBlock2", "TalkerAliasBlock3",
            "GPSInfo"]  # every opcode FullLinkControl.from_bits implements (TerminatorDataLinkControl is not: such a burst is not parseable)
LC_FIDS = [0x00, 0x00, 0x00, 0x00, 0x10, 0x68, 0x08, 0x04, 0x80]  # standard, Motorola, Hytera (two ids), Flyde, reserved-for-MFID


def lc_burst(r, dt, cc, src=None, dst=None):
    return data_burst(BPTC19696.encode(lc_bits(r, dt, src, dst)), dt, cc, r.choice(DATA_SYNCS))


def lc_bits(r, dt, src=None, dst=None):
    """96 information bits of a full link control burst (voice LC header / terminator with LC).  Opcode pool: the protocol's whole FLCO list (group and
    unit-to-unit voice in 60 %, else any opcode the element defines: talker alias header / blocks, GPS info, terminator data LC),
    protect flag and feature set id varied; the 56 information bits of the non-addressing opcodes are arbitrary"""
    x = r.random()
    flco = r.choice([FLCOs.GroupVoiceChannelUser, FLCOs.UnitToUnitVoiceChannelUser]) if x < 0.6 else FLCOs[r.choice(LC_FLCOS)]
    fid = r.choice(LC_FIDS)
    pf = 1 if r.random() < 0.1 else 0
    if flco in (FLCOs.GroupVoiceChannelUser, FLCOs.UnitToUnitVoiceChannelUser):
        rest = (int2ba(r.getrandbits(8) & 0b11110011, 8) + int2ba(dst if dst is not None else r.getrandbits(24), 24)
                + int2ba(src if src is not None else r.getrandbits(24), 24))
    else:
        rest = int2ba(r.getrandbits(56), 56)
    body = bitarray([pf, 0]) + flco.as_bits() + int2ba(fid, 8) + rest
    mask = (CrcMasks.VoiceLCHeader if dt == DataTypes.VoiceLCHeader else CrcMasks.TerminatorWithLC).value.to_bytes(3, "big")
    full = ReedSolomon1294.generate(body.tobytes(), mask)
    b = bitarray()
    b.frombytes(full)
    return b


def other_burst(r, cc):
    """a burst of one of the data types the alphabet of the property does not name but a receiver meets all the same: PI header, idle,
    MBC header / continuation, unified single block, reserved; 96 arbitrary information bits (a PI header that does not parse is simply not a
    parseable burst and is skipped by the receiver side of the harness)"""
    dt = r.choice([DataTypes.PIHeader, DataTypes.Idle, DataTypes.Idle, DataTypes.MBCHeader, DataTypes.MBCContinuation, DataTypes.UnifiedSingleBlockData,
                   DataTypes.Reserved])
    info = int2ba(r.getrandbits(96), 96)
    if dt == DataTypes.PIHeader and r.random() < 0.8:
        try:
            from okdmr.dmrlib.etsi.layer2.pdu.pi_header import PIHeader

            info = PIHeader.from_bits(info[:80] + bitarray([0] * 16)).as_bits()
        except Exception:
            pass
    return data_burst(BPTC19696.encode(info), dt, cc, r.choice(DATA_SYNCS))


def voice_burst(r, sync=None, cc=1, lcss=0, pi=0):
    v = bitarray([r.getrandbits(1) for _ in range(216)])
    if sync:
        center = SyncPatterns[sync].as_bits()
    else:
        e = EmbeddedSignalling(colour_code=cc, preemption_and_power_control_indicator=pi, link_control_start_stop=lcss).as_bits()
        center = e[:8] + bitarray([r.getrandbits(1) for _ in range(32)]) + e[8:]
    return (v[:108] + center + v[108:]).tobytes()


def make_header(r, fmt=None, btf=None, sap=None, conf=None, poc=None, dst=None, src=None):
    from okdmr.dmrlib.etsi.layer2.elements.defined_data_formats import DefinedDataFormats
    from okdmr.dmrlib.etsi.layer2.elements.sarq import SARQ
    from okdmr.dmrlib.etsi.layer2.elements.supplementary_flag import SupplementaryFlag
    from okdmr.dmrlib.etsi.layer2.elements.udt_format import UDTFormat
    from okdmr.dmrlib.etsi.layer3.elements.udt_option_flag import UDTOptionFlag

    DPF = DataPacketFormats
    f = fmt or r.choice(["conf", "unconf", "unconf", "resp", "sdd", "udt"])
    common = dict(llid_destination=dst if dst is not None else r.getrandbits(24), llid_source=src if src is not None else r.getrandbits(24),
                  sap_identifier=sap or r.choice(list(SAPIdentifier)))
    btf = r.choice([0, 1, 1, 2, 2, 3, 5, 127]) if btf is None else btf
    rr = (r.random() < 0.5) if conf is None else conf
    poc = r.randrange(32) if poc is None else poc
    if f == "conf":
        return DataHeader(dpf=DPF.DataPacketConfirmed, is_group=r.random() < 0.5, is_response_requested=rr, pad_octet_count=poc,
                          full_message_flag=FullMessageFlag(r.randrange(2)), blocks_to_follow=btf, resynchronize_flag=ResynchronizeFlag(r.randrange(2)),
                          send_sequence_number=r.randrange(8), fragment_sequence_number=r.randrange(16), **common)
    if f == "unconf":
        return DataHeader(dpf=DPF.DataPacketUnconfirmed, is_group=r.random() < 0.5, is_response_requested=rr, pad_octet_count=poc,
                          full_message_flag=FullMessageFlag(r.randrange(2)), blocks_to_follow=btf, fragment_sequence_number=r.randrange(16), **common)
    if f == "resp":
        return DataHeader(dpf=DPF.ResponsePacket, is_response_requested=rr, full_message_flag=FullMessageFlag(r.randrange(2)), blocks_to_follow=btf,
                          response_class=r.randrange(4), response_type=r.randrange(8), response_status=r.randrange(8), **common)
    if f == "sdd":
        return DataHeader(dpf=DPF.ShortDataDefined, is_group=r.random() < 0.5, is_response_requested=rr, appended_blocks=min(btf, 63),
                          defined_data_format=r.choice(list(DefinedDataFormats)), sarq=SARQ(r.randrange(2)), full_message_flag=FullMessageFlag(r.randrange(2)),
                          bit_padding=int2ba(r.getrandbits(8), 8), **common)
    return DataHeader(dpf=DPF.UnifiedDataTransport, is_group=r.random() < 0.5, is_response_requested=rr, is_emergency=r.random() < 0.5,
                      udt_option_flag=UDTOptionFlag(r.randrange(2)), udt_format=r.choice(list(UDTFormat)), pad_nibbles_count=r.randrange(32),
                      appended_blocks=r.randrange(4), supplementary_flag=SupplementaryFlag(r.randrange(2)), udt_opcode=r.choice(list(CsbkOpcodes)), **common)


def hdr_burst(r, cc, **kw):
    h = make_header(r, **kw)
    return data_burst(BPTC19696.encode(h.as_bits()), DataTypes.DataHeader, cc, r.choice(DATA_SYNCS))


OTHER_CSBKOS = ["BSOutboundActivation", "HyteraIPSCSync", "UnitToUnitVoiceServiceRequest", "UnitToUnitVoiceServiceAnswerResponse", "ChannelTimingCSBK",
                "AlohaPDUsForRandomAccessProtocol", "AnnouncementPDUsWithoutResponse"]  # the opcodes CSBK.from_bits implements besides the preamble


def csbk_burst(r, cc, pre=True, btf=None):
    return data_burst(BPTC19696.encode(csbk_pdu(r, pre, btf).as_bits()), DataTypes.CSBK, cc, r.choice(DATA_SYNCS))


def csbk_pdu(r, pre=True, btf=None):
    if pre:
        c = CSBK(csbko=CsbkOpcodes.PreambleCSBK, blocks_to_follow=r.choice([0, 1, 2, 3, 4, 255]) if btf is None else btf,
                 source_address=r.getrandbits(24), target_address=r.getrandbits(24), target_address_is_individual=r.random() < 0.5)
    else:
        c = None
        if r.random() < 0.6:
            # any other opcode the parser implements, arbitrary 64 information bits, check field generated by the library
            op = CsbkOpcodes[r.choice(OTHER_CSBKOS)]
            raw = bitarray([1, 0]) + int2ba(op.value, 6) + int2ba(r.choice([0, 0, 0x68, 0x10]), 8) + int2ba(r.getrandbits(64), 64)
            try:
                c = CSBK.from_bits(raw + bitarray([0] * 16))
                c.as_bits()
            except Exception:
                c = None  # values this opcode does not define: not a parseable burst, take the plain one
        if c is None:
            c = CSBK(csbko=CsbkOpcodes.BSOutboundActivation, bs_address=r.getrandbits(24), source_address=r.getrandbits(24))
    return c


def rate_burst(r, cc, k=None, shape=None):
    k = k or r.choice(["R12", "R34", "R1"])
    shape = shape or r.choice(["zero", "random", "random", "ones"])

    def rb(n):
        if shape == "zero":
            return bitarray([0] * n)
        if shape == "ones":
            return bitarray([1] * n)
        return bitarray([r.getrandbits(1) for _ in range(n)])

    if k == "R12":
        return data_burst(BPTC19696.encode(rb(96)), DataTypes.Rate12Data, cc, r.choice(DATA_SYNCS))
    if k == "R34":
        return data_burst(Trellis34.encode(rb(144)), DataTypes.Rate34Data, cc, r.choice(DATA_SYNCS))
    b = rb(192)
    return data_burst(b[:96] + bitarray([0] * 4) + b[96:], DataTypes.Rate1Data, cc, r.choice(DATA_SYNCS))


def voice_call(r, cc, superframes=None, headers=None, terminator=True):
    """complete voice call: LC header(s), whole A..F superframes, terminator"""
    out = []
    src, dst = r.getrandbits(24), r.getrandbits(24)
    for _ in range(headers if headers is not None else r.choice([1, 1, 2, 3])):
        out.append((lc_burst(r, DataTypes.VoiceLCHeader, cc, src, dst), "D", "vh"))
    vs = r.choice(VOICE_SYNCS)
    for _ in range(superframes if superframes is not None else r.choice([1, 1, 2, 3, 5])):
        out.append((voice_burst(r, sync=vs), "V", "vs"))
        for _i in range(5):
            out.append((voice_burst(r, cc=cc, lcss=r.randrange(4), pi=r.randrange(2)), "V", "ve"))
    if terminator:
        out.append((lc_burst(r, DataTypes.TerminatorWithLC, cc, src, dst), "D", "term"))
    return out


def voice_call_total(r, cc, total):
    """complete voice call of exactly `total` bursts: 1-3 LC headers, voice bursts in A..F order (last superframe possibly short), terminator"""
    h = r.choice([1, 2, 3])
    nv = max(0, total - h - 1)
    out = []
    src, dst = r.getrandbits(24), r.getrandbits(24)
    for _ in range(h):
        out.append((lc_burst(r, DataTypes.VoiceLCHeader, cc, src, dst), "D", "vh"))
    vs = r.choice(VOICE_SYNCS)
    for j in range(nv):
        if j % 6 == 0:
            out.append((voice_burst(r, sync=vs), "V", "vs"))
        else:
            out.append((voice_burst(r, cc=cc, lcss=r.randrange(4), pi=r.randrange(2)), "V", "ve"))
    out.append((lc_burst(r, DataTypes.TerminatorWithLC, cc, src, dst), "D", "term"))
    return out


def ref_crc32(data):
    """B.3.9 packet CRC-32 computed by hand (independent of the library's CRC engine): octet pairs swapped, polynomial 0x04C11DB7,
    most significant bit first, zero initial value, no final inversion; returns the register value"""
    d = bytearray(data)
    for i in range(0, len(d) - 1, 2):
        d[i], d[i + 1] = d[i + 1], d[i]
    reg = 0
    for byte in d:
        reg ^= byte << 24
        for _ in range(8):
            reg = ((reg << 1) ^ 0x04C11DB7) & 0xFFFFFFFF if reg & 0x80000000 else (reg << 1) & 0xFFFFFFFF
    return reg


def generated_data_tx(r, rate, conf, n, preambles, cc, sap, payload_kind="random", dst=77, src=5678, fmt="data", payload_override=None, retry=False, hdr_pool=None):
    """data transmission built by the real TransmissionGenerator; returns (bursts, meta).  `hdr_pool`: dict in which the sender keeps ONE DataHeader object
    per (format, confirmed) and re-uses it for later packets, updating only what changes (a stingy but legal caller)"""
    from math import ceil

    opb, olb = TAB[(rate, conf)]
    if payload_kind == "random":
        payload = bytes(r.getrandbits(8) for _ in range(n))
    elif payload_kind == "zero":
        payload = bytes(n)
    elif payload_kind == "ff":
        payload = b"\xff" * n
    elif payload_kind == "runs":
        # runs of equal octets (zero / ff / one value) of seeded lengths, at the start, inside and at the end of the payload
        payload = b""
        while len(payload) < n:
            payload += bytes([r.choice([0, 0, 0xFF, r.getrandbits(8)])]) * r.choice([1, 1, 2, 3, 4, 7])
        payload = payload[:n]
    elif payload_kind == "selfcrc":
        # user data that carries, at the end of one of its (non-last) blocks, the packet CRC-32 of everything before it -- what an application
        # protocol with its own CRC-32 trailer, or a forwarded DMR packet, looks like from inside
        payload = bytearray(r.getrandbits(8) for _ in range(n))
        full = [j * opb for j in range(1, n // opb + 1) if j * opb - 4 > 0 and j * opb <= n]
        if full:
            e = r.choice(full)
            payload[e - 4:e] = ref_crc32(bytes(payload[:e - 4])).to_bytes(4, "little")
        payload = bytes(payload)
    elif payload_kind == "tunnel":
        # user data that is itself DMR block content: the serialised CONFIRMED blocks (serial number, CRC-9, data) of an inner packet of the
        # same rate, carried as plain octets
        try:
            from checks import c04

            icls, itp, inb, _last = c04.rate_cls({"R12": "r12c", "R34": "r34c", "R1": "r1c"}[rate])
            s0 = r.choice([0, 1, 126, 127, r.randrange(128)])  # serial numbers count up (and wrap) from a seeded start
            raw = b"".join(icls(data=bytes(r.getrandbits(8) for _ in range(inb)), packet_type=itp, dbsn=(s0 + j) % 128).as_bits().tobytes() for j in range(n // inb + 2))
        except Exception:
            raw = b""
        payload = (raw + bytes(r.getrandbits(8) for _ in range(n)))[:n]
    else:
        payload = bytes(i & 255 for i in range(n))
    if payload_override is not None:
        payload = payload_override
        n = len(payload)
    nb = max(1, ceil(1 + (n - olb) / opb))
    poc = (nb - 1) * opb + olb - n
    hdr = None
    hkey = (fmt, conf)
    if hdr_pool is not None and retry is False and hkey in hdr_pool and r.random() < 0.6:
        hdr = hdr_pool[hkey]  # the header object of an earlier packet, brought up to date
        hdr.pad_octet_count = poc
        if fmt == "sdd":
            hdr.appended_blocks = nb
        else:
            hdr.blocks_to_follow = nb
        hdr.sap_identifier, hdr.llid_destination, hdr.llid_source = sap, dst, src
    elif fmt == "sdd":
        # defined short data header (DD_HEAD): confirmed when the A bit is set -- the form text messages use on air; announces appended blocks
        from okdmr.dmrlib.etsi.layer2.elements.defined_data_formats import DefinedDataFormats
        from okdmr.dmrlib.etsi.layer2.elements.sarq import SARQ

        hdr = DataHeader(dpf=DataPacketFormats.ShortDataDefined, sap_identifier=sap, is_response_requested=conf, pad_octet_count=poc,
                         llid_destination=dst, llid_source=src, appended_blocks=nb, defined_data_format=r.choice(list(DefinedDataFormats)),
                         sarq=SARQ(r.randrange(2)), full_message_flag=FullMessageFlag(r.randrange(2)),
                         bit_padding=int2ba(r.getrandbits(8), 8), is_group=r.random() < 0.5)
    elif fmt == "resp":
        hdr = DataHeader(dpf=DataPacketFormats.ResponsePacket, sap_identifier=sap, is_response_requested=conf, pad_octet_count=poc,
                         llid_destination=dst, llid_source=src, blocks_to_follow=nb, full_message_flag=FullMessageFlag(r.randrange(2)),
                         response_class=r.randrange(4), response_type=r.randrange(8), response_status=r.randrange(8))
    else:
        # every field of the header is the sender's to choose: re-synchronise flag, N(S), fragment sequence number, full-message flag, group / individual
        hdr = DataHeader(dpf=DataPacketFormats.DataPacketConfirmed if conf else DataPacketFormats.DataPacketUnconfirmed, sap_identifier=sap,
                         is_response_requested=conf, pad_octet_count=poc, llid_destination=dst, llid_source=src, blocks_to_follow=nb,
                         full_message_flag=FullMessageFlag(0) if retry else (FullMessageFlag.FirstTryToCompletePacket if retry is None else FullMessageFlag(r.randrange(2))),
                         resynchronize_flag=(ResynchronizeFlag(0) if retry is not False else ResynchronizeFlag(r.randrange(2))) if conf else None,
                         send_sequence_number=(3 if retry is not False else r.randrange(8)) if conf else 0,
                         fragment_sequence_number=8 if retry is not False else r.choice([0, 8, 8, 9, 15, r.randrange(16)]),
                         is_group=False if retry is not False else r.random() < 0.5)
    if hdr_pool is not None and retry is False:
        hdr_pool[hkey] = hdr
    userdata = payload
    if r.random() < 0.15:
        from okdmr.dmrlib.utils.bytes_interface import BytesInterface

        class _Wrapped(BytesInterface):  # the generator documents Union[bytes, BytesInterface]: a PDU object that serialises to the payload
            def as_bytes(self, endian="big"):
                return payload

            @staticmethod
            def from_bytes(data, endian="big"):
                return None

        userdata = _Wrapped()
    if r.random() < 0.15:
        # the sender first assembles a packet by hand from the generator's public building blocks, with the same parameters, and treats what
        # they return as its own (containers extended, reversed, emptied in place) -- then asks for the complete transmission
        try:
            db, _poc = TransmissionGenerator.generate_data_bursts(packet_type=rate_class(rate), userdata=payload, colour_code=cc, is_confirmed=conf)
            hb = TransmissionGenerator.generate_data_header_burst(data_header=hdr)
            pre = TransmissionGenerator.generate_csbk_preambles(source_address=src, target_address=dst, colour_code=cc, num_of_preambles=preambles,
                                                                num_of_following_data_blocks=len(db) + 1)
            pre.append(hb)
            pre.extend(db)
            if r.random() < 0.5:
                pre.reverse()
            if r.random() < 0.5:
                del pre[: len(pre) // 2]
            db.clear()
        except Exception:
            pass
    bursts = TransmissionGenerator.generate_full_data_transmission(packet_type=rate_class(rate), userdata=userdata, data_header=hdr,
                                                                   csbk_count=preambles, colour_code=cc)
    tags = ["pre"] * preambles + ["hdr"] + ["rate"] * nb
    if len(tags) != len(bursts):
        raise ValueError(f"generate_full_data_transmission returned {len(bursts)} bursts for {preambles} preambles + 1 header + {nb} data blocks")
    wire = [(b.as_bytes(), "D", t) for b, t in zip(bursts, tags)]
    meta = {"payload": payload.hex(), "poc": poc, "conf": conf, "rate": rate, "nblocks": nb, "preambles": preambles, "cc": cc, "n": n,
            "sap": sap.name, "fmt": fmt}
    return wire, meta


# ------------------------------------------------------------------ receiver side


class EntropySeam:
    """stand-in for the `secrets` name in transmission.py: unique 4-byte tokens, issue order recorded"""

    def __init__(self, seed):
        self.seed = seed & 0xFFFFFFFF
        self.count = 0
        self.issued = {}

    def token_bytes(self, n=4):
        self.count += 1
        v = ((self.count * 2654435761) & 0xFFFFFFFF) ^ self.seed
        t = v.to_bytes(4, "big")[:n] if n <= 4 else v.to_bytes(4, "big") + bytes(n - 4)
        self.issued[t] = self.count
        return t


class Recorder:
    def __init__(self, name, seam, raise_on=(), exc="ValueError"):
        self.name = name
        self.seam = seam
        self.ev = []
        self.raise_on = set(raise_on)
        self.held = []
        import asyncio

        self.exc = {"ValueError": ValueError, "KeyError": KeyError, "RuntimeError": RuntimeError, "AssertionError": AssertionError,
                    "ZeroDivisionError": ZeroDivisionError, "SystemExit": SystemExit, "GeneratorExit": GeneratorExit,
                    "CancelledError": asyncio.CancelledError}[exc]
        self.raised = 0

    def _ev(self, kind, *a):
        self.ev.append((kind, self.seam.count) + a)
        if kind in self.raise_on:
            self.raised += 1
            raise self.exc(f"observer {self.name} raises from {kind}")


def make_recorder_class():
    from okdmr.dmrlib.transmission.transmission_observer_interface import TransmissionObserverInterface

    class Rec(TransmissionObserverInterface, Recorder):
        def __init__(self, *a, **kw):
            Recorder.__init__(self, *a, **kw)

        def transmission_started(self, transmission_type):
            self._ev("started", transmission_type.name)

        def data_transmission_ended(self, transmission_header, blocks):
            self.held.append((list(blocks), blocks, "data_ended"))  # an observer may keep what it was handed without copying it
            self._ev("data_ended", "DataTransmission", transmission_header, list(blocks))

        def voice_transmission_ended(self, voice_header, blocks):
            self.held.append((list(blocks), blocks, "voice_ended"))
            self._ev("voice_ended", "VoiceTransmission", voice_header, list(blocks))

    return Rec


def make_forwarder(rec):
    """an observer object that nothing but the library refers to (the application registered `Watcher(observers=[Forwarder(sink)])` inline):
    it forwards every notification to the recorder the harness reads"""
    from okdmr.dmrlib.transmission.transmission_observer_interface import TransmissionObserverInterface

    class Forwarder(TransmissionObserverInterface):
        def transmission_started(self, transmission_type):
            return rec.transmission_started(transmission_type)

        def data_transmission_ended(self, transmission_header, blocks):
            return rec.data_transmission_ended(transmission_header, blocks)

        def voice_transmission_ended(self, voice_header, blocks):
            return rec.voice_transmission_ended(voice_header, blocks)

    return Forwarder()


class _AsciiSink(io.TextIOWrapper):
    def __init__(self):
        super().__init__(io.BytesIO(), encoding="ascii", errors="strict", write_through=True)

    def truncate(self, n=None):
        self.buffer.seek(0)
        self.buffer.truncate()
        return 0

    def seek(self, *a):
        return 0


class Receiver:
    """the receiving side + bookkeeping of everything the oracles need"""

    def __init__(self, knobs, res, prop):
        import okdmr.dmrlib.transmission.timeslot as tsmod
        import okdmr.dmrlib.transmission.transmission as tmod
        from okdmr.dmrlib.transmission.transmission_watcher import TransmissionWatcher

        _imports()
        self.res = res
        self.prop = prop
        self.knobs = knobs
        self.seam = EntropySeam(knobs.get("entropy_seed", 1))
        tmod.secrets = self.seam
        self.clock = {"t": 1_700_000_000.0, "skew": 0.0, "reads": 0}

        def sim_time():
            self.clock["reads"] += 1
            return self.clock["t"] + self.clock["skew"]

        tsmod.time = sim_time
        Rec = make_recorder_class()
        self.primary = Rec("primary", self.seam)
        obs = [self.primary]
        self.second = None
        self.raiser = None
        ro = knobs.get("raising_observer")
        if knobs.get("second_observer", True):
            self.second = Rec("second", self.seam)
            obs.append(self.second)
        if ro:
            # the raising observer's place in the registration order is seeded: first, between the two recorders, or LAST (nobody is called after it)
            self.raiser = Rec("raiser", self.seam, raise_on=ro["on"], exc=ro.get("exc", "ValueError"))
            obs.insert(ro.get("pos", 0) % (len(obs) + 1), self.raiser)
        if knobs.get("inline_observers"):
            obs = [make_forwarder(o) for o in obs]  # observer objects owned by nobody but the library
        self.watcher = TransmissionWatcher(observers=obs)
        del obs
        if knobs.get("inline_observers"):
            res.fault("observers_referenced_only_by_the_library")  # (reference counting frees an unreferenced object at once: no collection pass needed)
        # what the library prints goes to a sink; in a third of the runs the sink is an ASCII-only text stream, like stdout under LC_ALL=C
        self.sink = io.StringIO() if knobs.get("entropy_seed", 1) % 3 else _AsciiSink()
        self.wd = Watchdog(5.0)
        self.slots = {}
        self.log = core.EventLog()
        self.n = 0
        self.reuse_parsed = {} if knobs.get("reuse_parsed") else None
        self.last_was_reused = False
        # a second, independent watcher in the same process (another receiver site; own observer, nothing it reports is used) that hears the
        # same bursts a few bursts late
        self.twin = TransmissionWatcher(observers=[Rec("twin", EntropySeam(7))]) if knobs.get("twin_lag") else None
        self.twin_q = []
        self.twin_lag = knobs.get("twin_lag") or 0

    def tracker(self, term, ts):
        t = self.watcher.terminals.get(term)
        return t.timeslots[ts].transmission if t else None

    def parse(self, data, bt):
        """returns Burst or None if the 33 bytes are not a parseable burst (outside the property's domain)"""
        if self.reuse_parsed is not None:
            # an application that parses each distinct burst once and hands the SAME Burst object to the tracker whenever those octets arrive
            # again (duplicates, replays of a recording, repeated idle bursts)
            key = (bytes(data), bt)
            self.last_was_reused = key in self.reuse_parsed
            if key not in self.reuse_parsed:
                self.reuse_parsed[key] = self._parse(data, bt)
            else:
                self.res.fault("same_burst_object_delivered_again")
            return self.reuse_parsed[key]
        return self._parse(data, bt)

    def _parse(self, data, bt):
        try:
            old = sys.stdout
            sys.stdout = self.sink
            try:
                return Burst.from_bytes(data, BurstTypes.Vocoder if bt == "V" else BurstTypes.DataAndControl)
            finally:
                sys.stdout = old
        except Exception:
            return None

    @staticmethod
    def classify(b):
        """class of a parsed burst, from the burst itself (post-fault)"""
        if b.has_slot_type:
            dt = b.data_type.name
            if dt == "CSBK":
                return "pre" if getattr(b.data, "csbko", None) is not None and b.data.csbko.name == "PreambleCSBK" else "csbk"
            return {"VoiceLCHeader": "vh", "TerminatorWithLC": "term", "DataHeader": "hdr", "Rate12Data": "R12", "Rate34Data": "R34",
                    "Rate1Data": "R1"}.get(dt, "other:" + dt)
        if b.is_voice_superframe_start:
            return "vs"
        return "ve"

    @staticmethod
    def pdu_key(b, cls):
        if cls in ("hdr",):
            return ("H", b.data.as_bits().to01())
        if cls in ("pre", "csbk"):
            return ("C", b.data.as_bits().to01())
        if cls in ("R12", "R34", "R1"):
            return (cls, b.info_bits_deinterleaved.tobytes().hex())
        if cls == "vh":
            return ("V", b.data.as_bits().to01())
        return None

    @staticmethod
    def handed_key(x):
        n = type(x).__name__
        if n == "CSBK":
            return ("C", x.as_bits().to01())
        if n == "DataHeader":
            return ("H", x.as_bits().to01())
        if n == "FullLinkControl":
            return ("V", x.as_bits().to01())
        return ({"Rate12Data": "R12", "Rate34Data": "R34", "Rate1Data": "R1"}.get(n, n), x.data.hex())

    @staticmethod
    def full_key(x):
        n = type(x).__name__
        try:
            bits = x.as_bits().to01()
        except Exception as e:
            bits = "as_bits raised " + type(e).__name__
        return (n, getattr(getattr(x, "packet_type", None), "name", None), x.data.hex() if isinstance(getattr(x, "data", None), (bytes, bytearray)) else None, bits)

    def feed(self, term, ts, data, bt, op_i, parsed=False):
        """deliver one burst; returns dict describing what happened, or None if unparseable.  `parsed`: the Burst object (or None) when the
        application parsed its input ahead of processing it (knob parse_ahead), False when it parses each burst right before feeding it"""
        b = self.parse(data, bt) if parsed is False else parsed
        if b is None:
            return None
        self.n += 1
        self.clock["t"] += 0.03
        if self.twin is not None:
            self.twin_q.append((bytes(data), bt, term, ts))
            if len(self.twin_q) > self.twin_lag:
                td, tbt, tterm, tts = self.twin_q.pop(0)
                tb = self._parse(td, tbt)
                if tb is not None:
                    tb.target_radio_id, tb.timeslot = tterm, tts
                    old = sys.stdout
                    sys.stdout = self.sink
                    try:
                        self.twin.process_burst(tb)
                    except BaseException:
                        pass
                    finally:
                        sys.stdout = old
                        self.sink.seek(0)
                        self.sink.truncate()
                    self.res.fault("twin_watcher_delivery")
        cls = self.classify(b)
        key = self.pdu_key(b, cls)
        direct = bool(self.knobs.get("direct_terminal"))
        if not direct:
            b.target_radio_id = term
            b.timeslot = ts
        tr = self.tracker(term, ts)
        type0 = tr.type.name if tr else "Idle"
        n0 = len(self.primary.ev)
        raised = None
        out = None
        old = sys.stdout
        sys.stdout = self.sink
        try:
            with self.wd:
                if direct:
                    # the application keeps the terminals itself and feeds a terminal / timeslot directly ("fed to a terminal/timeslot"): the slot is the
                    # ARGUMENT of the call, the burst object is as the parser made it (its own timeslot attribute untouched)
                    self.watcher.ensure_terminal(term)
                    out = self.watcher.terminals[term].process_incoming_burst(burst=b, timeslot=ts)
                else:
                    out = self.watcher.process_burst(b)
        except Watchdog.Timeout:
            raised = "timeout"
        except BaseException as e:  # observers may raise BaseException subclasses (SystemExit, CancelledError): they must not escape either
            tb = e.__traceback__
            while tb.tb_next is not None:
                tb = tb.tb_next
            raised = f"{type(e).__name__}@{tb.tb_frame.f_code.co_name}: {e}"
        finally:
            sys.stdout = old
            self.sink.seek(0)
            self.sink.truncate()
        evs = self.primary.ev[n0:]
        tr = self.tracker(term, ts)
        self.log.add(self.n, f"{term}/{ts}", cls, (data.hex(), [e[0] for e in evs], raised, getattr(out, "sequence_no", None),
                                                  getattr(getattr(out, "voice_burst", None), "name", None), tr.type.name if tr else None))
        return {"burst": b, "cls": cls, "key": key, "type0": type0, "events": evs, "out": out, "raised": raised, "tracker": tr, "op": op_i,
                "reused": self.reuse_parsed is not None and self.last_was_reused and parsed is False}
