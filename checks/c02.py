"""C02 — BPTC(196,96) under <= 2 channel bit errors: complete enumeration of fault points.

Transmitter = real BPTC19696.encode; channel inverts the chosen positions of the 196
transmitted bits; receiver = real BPTC19696.deinterleave_data_bits(repair on/off).
"""
import itertools

from dsim import core
from dsim.base import Check

NPAT = 1 + 196 + 196 * 195 // 2  # 19307
BLOCKS = 16  # pattern blocks per message (one pool task each)


def all_patterns():
    pats = [()]
    pats += [(i,) for i in range(196)]
    pats += list(itertools.combinations(range(196), 2))
    return pats


class C02(Check):
    pid = "C02"
    library_exception_is_violation = True  # every call made in execute() is one the property covers, with valid arguments
    level = "fault_enumeration"
    chunk = 4
    run_timeout = 600.0
    rule = ("for each message of the seeded workload (zero, unit messages, complements, seeded random 96-bit messages) the COMPLETE set of channel "
            "error patterns of weight 0, 1 and 2 over the 196 transmitted positions (19 307 per message) is injected between the real encoder and the "
            "real decoder (arm full); arm w1 injects every weight<=1 pattern on all 194 structured messages; weight-3 patterns are sampled as an "
            "informational probe only. distinct_nontrivial = distinct (message class, error weight, relation of the error positions: same row / same "
            "column / neither / touches parity row / touches parity column / touches reserved bit) cells exercised with weight >= 1")
    real_components = ["BPTC19696.encode", "BPTC19696.deinterleave_data_bits", "BPTC19696.repair_if_necessary", "Hamming15113 / Hamming1393 correction"]
    stub_components = ["AirChannel bit-flip injector"]
    assumptions = ["messages are a seeded sample (the code is GF(2)-linear, so behaviour under an error pattern does not depend on the message if the "
                   "implementation is linear; that linearity is not proven here)",
                   "the repair flag is passed as True / 1 / numpy.bool_(True) in turn (and False / 0 / numpy.bool_(False) for the unrepaired decode)"]
    exhaustive = {}  # complete in the fault dimension per message, sampled in the message dimension: not claimed exhaustive

    def preload(self):
        import okdmr.dmrlib.etsi.fec.bptc_196_96  # noqa
        from checks import c19

        c19.preload_cotenant()

    def budget(self, tier):
        return 200.0 if tier == "quick" else 1800.0

    def arms(self, tier):
        nfull = 24 if tier == "quick" else 640
        arms = [("full", nfull * BLOCKS), ("w1", 194), ("mixhist", 64 if tier == "quick" else 1500)]
        if tier == "thorough":
            arms.append(("w3probe", 64))
        return arms

    @staticmethod
    def structured(i):
        """0: zero, 1..96: unit, 97: all ones, 98..193: complements of units"""
        v = 0
        if 1 <= i <= 96:
            v = 1 << (96 - i)
        elif i == 97:
            v = (1 << 96) - 1
        elif i > 97:
            v = ((1 << 96) - 1) ^ (1 << (96 - (i - 97)))
        return v

    def generate(self, arm, index, streams, tier):
        if arm == "full":
            m, blk = divmod(index, BLOCKS)
            # message m: a few structured ones first, then seeded random (one stream per message, not per block)
            import random

            r = random.Random(core.derive(streams.verif_seed, "C02msg", m))  # same message for all blocks of m
            if m == 0:
                v, cls = 0, "zero"
            elif m == 1:
                v, cls = (1 << 96) - 1, "ones"
            elif m == 2:
                v, cls = 1 << r.randrange(96), "unit"
            else:
                v, cls = r.getrandbits(96), "random"
            lo = blk * NPAT // BLOCKS
            hi = (blk + 1) * NPAT // BLOCKS
            return {"message": v.to_bytes(12, "big").hex(), "mclass": cls, "range": [lo, hi]}
        if arm == "w1":
            v = self.structured(index)
            cls = "zero" if index == 0 else ("unit" if index <= 96 else ("ones" if index == 97 else "unit-complement"))
            # transmitted "in place": every pattern gets a freshly encoded codeword which the channel corrupts without copying it first
            # (a transmitter that keeps hold of / re-uses what encode() returned is then exposed); the case is the whole pattern history
            # Between transmissions the receiver also hears noise (a random 196-bit word, decoded with repair, result not judged), and in
            # half of the runs the message is handed to the encoder in a little-endian bitarray (same bit sequence; legal, unusual).
            w = streams["work"]
            ops = [[]]
            for i in range(196):
                if w.random() < 0.06:
                    ops.append({"noise": w.getrandbits(32), "weight": w.choice([3, 5, 98, -1])})  # -1: a failing call (195-bit word: raises)
                ops.append([i])
            ops.append([])
            if index % 3 == 0:
                # the rest of the application uses the other FEC codes (and anything else) between the receptions
                from checks import c19

                co = c19.gen_cotenant(streams["cotenant"], n=w.choice([4, 10]), prefer=["Hamming", "VBPTC", "Golay", "Quadratic", "BPTC"])
                for o in co:
                    ops.insert(w.randrange(1, len(ops)), {"cotenant": o})
            return {"message": v.to_bytes(12, "big").hex(), "mclass": cls, "inplace": True, "little": index % 2 == 1, "ops": ops}
        if arm == "mixhist":
            # ONE receiver process hears SEVERAL related messages (a base message, its one-bit neighbours, zero, all ones: their codewords share
            # most on-air bits), each reception with 0, 1 or 2 inverted bits, in a seeded order; the other mode of the public repair call
            # (deinterleaved=True) and noise are part of the history but not judged
            w = streams["work"]
            base = w.getrandbits(96)
            pool = [0, (1 << 96) - 1, base] + [base ^ (1 << w.randrange(96)) for _ in range(w.choice([0, 2, 8]))] + [1 << w.randrange(96) for _ in range(w.choice([0, 2, 30]))]
            pool = w.sample(pool, w.choice([2, 3, len(pool)]))
            ops = []
            if w.random() < 0.25:
                ops.append({"api": "repair_deinterleaved", "m": w.choice(pool).to_bytes(12, "big").hex()})
            for _ in range(w.choice([100, 400, 1500])):
                x = w.random()
                if x < 0.01:
                    ops.append({"api": "repair_deinterleaved", "m": w.choice(pool).to_bytes(12, "big").hex()})
                elif x < 0.03:
                    ops.append({"noise": w.getrandbits(32), "weight": w.choice([3, 5, 98, -1])})
                else:
                    ops.append({"m": w.choice(pool).to_bytes(12, "big").hex(), "p": sorted(w.sample(range(196), w.choice([0, 0, 1, 1, 2, 2, 2])))})
            ops += [dict(o) for o in ops[:16]]
            return {"task": "mixhist", "message": "00" * 12, "mclass": "mixed", "ops": ops}
        # informational: sampled weight-3 patterns
        w = streams["work"]
        v = w.getrandbits(96)
        pats = [sorted(w.sample(range(196), 3)) for _ in range(400)]
        return {"message": v.to_bytes(12, "big").hex(), "mclass": "random", "ops": pats, "informational": True}

    def sample(self, case):
        return {"message": case["message"], "mclass": case["mclass"], "patterns": case.get("range") or case.get("ops", [])[:5]}

    def simplify(self, case):
        ops = case.get("ops") or []
        if case.get("task") == "mixhist":
            for i, o in enumerate(ops):
                if len(o.get("p") or []) > 0:
                    for k in range(len(o["p"])):
                        o2 = list(ops)
                        o2[i] = dict(o, p=o["p"][:k] + o["p"][k + 1:])
                        yield dict(case, ops=o2)
            return
        if len(ops) == 1 and len(ops[0]) > 1:
            for k in range(len(ops[0])):
                yield dict(case, ops=[ops[0][:k] + ops[0][k + 1:]])
        if case["message"] != "00" * 12:
            yield dict(case, message="00" * 12, mclass="zero")

    def execute(self, case):
        from bitarray import bitarray
        from okdmr.dmrlib.etsi.fec.bptc_196_96 import BPTC19696

        res = core.RunResult()
        log = core.EventLog()
        if case.get("task") == "mixhist":
            return self._mixhist(case, res, log)
        msg = bitarray()
        msg.frombytes(bytes.fromhex(case["message"]))
        info = {}
        for _, (ii, row, col, is_res, is_ham) in BPTC19696.INTERLEAVING_INDICES.items():
            info[ii] = (row, col, is_res, is_ham)
        if case.get("little"):
            msg = bitarray(msg.to01(), endian="little")
        cw = BPTC19696.encode(msg.copy())
        mclass = case.get("mclass", "?")
        if "ops" in case:
            pats = [p if isinstance(p, dict) else tuple(p) for p in case["ops"]]
        else:
            allp = all_patterns()
            pats = allp[case["range"][0]: case["range"][1]]
        informational = bool(case.get("informational"))
        fails = {}
        inplace = bool(case.get("inplace"))
        import random as _random

        import numpy

        for pi, p in enumerate(pats):
            if isinstance(p, dict) and "cotenant" in p:
                from checks import c19

                c19.run_cotenant([p["cotenant"]])
                res.fault("cotenant_library_calls")
                continue
            if isinstance(p, dict):  # noise reception: a corrupted-beyond-repair word of some other transmission; nothing is judged
                r = _random.Random(p["noise"])
                nz = BPTC19696.encode(bitarray([r.getrandbits(1) for _ in range(96)]))
                if p.get("weight", 98) < 0:
                    nz = nz[:195]
                else:
                    for i in r.sample(range(196), p.get("weight", 98)):
                        nz.invert(i)
                for f in (lambda: BPTC19696.deinterleave_data_bits(nz, True), lambda: BPTC19696.encode(nz[:95]) if len(nz) < 196 else None):
                    try:
                        f()
                    except Exception:
                        pass
                res.fault("noise_reception")
                continue
            res["evals"] += 1
            w = len(p)
            rx = BPTC19696.encode(msg.copy()) if inplace else cw.copy()
            for i in p:
                rx.invert(i)
            if w == 0:
                if len(cw) != 196:
                    res.violate("C02.encode-length", mclass, f"encode returned {len(cw)} bits")
                d1 = BPTC19696.deinterleave_data_bits(rx.copy(), (True, 1, numpy.bool_(True))[(sum(p) + len(p)) % 3])
                d0 = BPTC19696.deinterleave_data_bits(rx.copy(), (False, 0, numpy.bool_(False))[(sum(p) + len(p)) % 3])
                if d1.to01() != msg.to01() or d0.to01() != msg.to01():
                    self._fail(fails, res, "C02.clean-roundtrip", "clean", case, p, f"decode(with repair)={'ok' if d1.to01() == msg.to01() else 'WRONG'} decode(without repair)={'ok' if d0.to01() == msg.to01() else 'WRONG'}")
                rep = BPTC19696.repair_if_necessary(bits=rx.copy())
                diff = [i for i in range(196) if rep[i] != cw[i]]  # all 196 transmitted positions, the reserved bit R(3) included
                if diff:
                    self._fail(fails, res, "C02.repair-alters-clean-codeword", "clean", case, p, f"repair changed positions {diff[:10]} of an error-free codeword")
                # the repair call's other documented mode: the 196 bits handed over already de-interleaved (deinterleaved=True) -- an error-free
                # codeword must come back unaltered there as well (same layout as it was given in)
                dd = BPTC19696.deinterleave_all_bits(rx.copy())
                try:
                    rep2 = BPTC19696.repair_if_necessary(bits=dd.copy(), deinterleaved=True)
                    diff2 = [i for i in range(196) if rep2[i] != dd[i]] if len(rep2) == 196 else ["length %d" % len(rep2)]
                except Exception as e:
                    diff2 = [type(e).__name__]
                if diff2:
                    self._fail(fails, res, "C02.repair-alters-clean-codeword", "clean:deinterleaved-mode", case, p,
                               f"repair_if_necessary(deinterleave_all_bits(codeword), deinterleaved=True) changed {len(diff2)} positions {diff2[:10]} of an error-free codeword")
                res.fault("weight0")
                log.add(0, "rx", "clean", (d1.to01() == msg.to01(), d0.to01() == msg.to01()))
                continue
            rel = self._relation(p, info)
            d = BPTC19696.deinterleave_data_bits(rx, (True, 1, numpy.bool_(True))[(sum(p) + len(p)) % 3])
            ok = d.to01() == msg.to01()
            log.add(0, "rx", p, ok)
            if informational:
                res.fault("weight3_sampled")
                res.probe("weight3_decoded_correctly" if ok else "weight3_decoded_wrong_or_unrepaired")
                continue
            res.fault(f"weight{w}")
            res["cov"].add(f"{mclass}|w{w}|{rel}")
            if not ok:
                self._fail(fails, res, "C02.correctable-error-misdecoded", f"w{w}:{rel}", case, p,
                           f"{w} inverted bit(s) at transmitted positions {list(p)}: decoder with repair returned a different message")
        pats = [p for p in pats if not isinstance(p, dict)]
        for (oracle, site), (n, first) in fails.items():
            for v in res["viol"]:
                if v["oracle"] == oracle and v["site"] == site:
                    v["detail"] += f" ({n} patterns of this class failed for this message in this block)"
                    v["count"] = n
        res["ops"] = len(pats)
        if case.get("little"):
            res.probe("message_in_little_endian_bitarray")
        res["digest"] = log.digest()
        return res

    @staticmethod
    def _mixhist(case, res, log):
        import random as _random

        from bitarray import bitarray
        from okdmr.dmrlib.etsi.fec.bptc_196_96 import BPTC19696

        for i, op in enumerate(case["ops"]):
            if "noise" in op:
                r = _random.Random(op["noise"])
                nz = BPTC19696.encode(bitarray([r.getrandbits(1) for _ in range(96)]))
                if op.get("weight", 98) < 0:
                    nz = nz[:195]
                else:
                    for j in r.sample(range(196), op.get("weight", 98)):
                        nz.invert(j)
                try:
                    BPTC19696.deinterleave_data_bits(nz, True)
                except Exception:
                    pass
                res.fault("noise_reception")
                continue
            msg = bitarray()
            msg.frombytes(bytes.fromhex(op["m"]))
            if "api" in op:
                try:  # the public repair call in its other mode (bits already de-interleaved); result not judged here
                    BPTC19696.repair_if_necessary(BPTC19696.deinterleave_all_bits(BPTC19696.encode(msg.copy())), deinterleaved=True)
                except Exception:
                    pass
                res.fault("other_api_mode_call")
                continue
            p = op["p"]
            rx = BPTC19696.encode(msg.copy())
            for j in p:
                rx.invert(j)
            res["evals"] += 1
            d = BPTC19696.deinterleave_data_bits(rx.copy(), True)
            ok = d.to01() == msg.to01()
            ok0 = True
            if not p:
                ok0 = BPTC19696.deinterleave_data_bits(rx.copy(), False).to01() == msg.to01()
            log.add(i, "rx", (op["m"], p), (ok, ok0))
            res.fault(f"weight{len(p)}")
            res["cov"].add(f"mixed|w{len(p)}")
            if not (ok and ok0):
                res.violate("C02.correctable-error-misdecoded" if p else "C02.clean-roundtrip", f"mixed:w{len(p)}",
                            f"reception #{i} of a history over several messages: message {op['m']} with inverted positions {p} decoded as "
                            f"{bytes(d.tobytes()).hex()} (with repair){'' if ok0 else ' / wrong without repair'}", at=i)
                if len(res["viol"]) >= 3:
                    break
        res["ops"] = len(case["ops"])
        res["digest"] = log.digest()
        return res

    @staticmethod
    def _relation(p, info):
        rows = [info[i][0] for i in p if i in info]
        cols = [info[i][1] for i in p if i in info]
        tags = []
        if any(i not in info or info[i][2] for i in p):
            tags.append("reserved")
        if len(p) == 2 and len(rows) == 2:
            if rows[0] == rows[1]:
                tags.append("same-row")
            elif cols[0] == cols[1]:
                tags.append("same-col")
            else:
                tags.append("neither")
        if any(r >= 10 for r in rows):
            tags.append("parity-row")
        if any(c >= 11 for c in cols):
            tags.append("parity-col")
        return "+".join(tags) or "data"

    @staticmethod
    def _fail(fails, res, oracle, site, case, p, detail):
        k = (oracle, site)
        if k in fails:
            fails[k] = (fails[k][0] + 1, fails[k][1])
            return
        fails[k] = (1, p)
        res.violate(oracle, site, detail)
        if not case.get("inplace"):  # in-place arm: the whole pattern history is the case (minimised by ddmin)
            res["viol"][-1]["case"] = {"property": "C02", "message": case["message"], "mclass": case.get("mclass"), "ops": [list(p)],
                                       "arm": case.get("arm"), "run": case.get("run")}


CHECKS = {"C02": C02()}
