"""C04 — integrity indicators under channel corruption (fault enumeration).

Transmitter builds PDUs from fields with the real constructors and serialises them;
the channel corrupts the wire bits; the receiver parses with the real from_bits /
from_bytes and reads the indicator.  For the two small FEC words the fault space is
taken to its end: every received word.
"""
import enum
import itertools
import random

from dsim import core
from dsim.base import Check

# ------------------------------------------------------------------ reference arithmetic (guards the injector)


def ref_rem(bits, poly, w):
    r = 0
    mask = (1 << w) - 1
    for b in bits:
        top = (r >> (w - 1)) & 1
        r = (r << 1) & mask
        if top ^ b:
            r ^= poly
    return r


def ones_complement_valid(data: bytes) -> bool:
    if len(data) % 2:
        data += b"\x00"
    s = 0
    for i in range(0, len(data), 2):
        s += int.from_bytes(data[i:i + 2], "big")
    while s >> 16:
        s = (s & 0xFFFF) + (s >> 16)
    return s == 0xFFFF


def canon(x, depth=0):
    from bitarray import bitarray

    if isinstance(x, bitarray):
        return "ba:" + x.to01()
    if isinstance(x, enum.Enum):
        return type(x).__name__ + "." + x.name
    if isinstance(x, (bytes, bytearray)):
        return "by:" + bytes(x).hex()
    if isinstance(x, (int, float, str, bool, type(None))):
        return repr(x)
    if isinstance(x, (list, tuple)):
        return [canon(i, depth + 1) for i in x]
    if isinstance(x, dict):
        return {repr(k): canon(v, depth + 1) for k, v in sorted(x.items(), key=lambda kv: repr(kv[0]))}
    if hasattr(x, "__dict__") and depth < 5:
        return {k: canon(v, depth + 1) for k, v in sorted(vars(x).items())}
    return repr(x)


# ------------------------------------------------------------------ PDU kinds


def layout(kind, n):
    """(code-order list of wire positions [message high degree first, then check], check wire positions, poly, width, max guaranteed weight, max burst)"""
    if kind.startswith("dh-") or kind == "pi":
        return list(range(80)) + list(range(80, 96)), list(range(80, 96)), 0x1021, 16, 3, 16
    if kind.startswith("slc-"):
        return list(range(28)) + list(range(35, 27, -1)), list(range(28, 36)), 0x07, 8, 3, 8
    if kind.startswith("r"):
        return list(range(16, n)) + list(range(0, 7)) + list(range(15, 6, -1)), list(range(7, 16)), 0x59, 9, 2, 9
    if kind.startswith("hrnp-"):
        return list(range(n)), list(range(80, 96)), None, 16, 1, 15
    raise KeyError(kind)


DH = ["dh-conf", "dh-unconf", "dh-resp", "dh-sdd", "dh-udt"]
RATE = ["r12c", "r12cl", "r34c", "r34cl", "r1c", "r1cl"]
HRNPK = ["hrnp-connect", "hrnp-accept", "hrnp-close", "hrnp-dataack", "hrnp-rrs", "hrnp-tmp", "hrnp-lp", "hrnp-rcp"]
PDU_KINDS = DH + ["pi", "slc-null", "slc-act"] + RATE + HRNPK
HDAP_HEX = {
    "hrnp-tmp": ["0980a10022000000010a01b2070a03640e4f004c004900560045005200200054004500530054007a03", "0980a2000D000000010a01b2070a030000003103"],
    "hrnp-lp": ["08a0020032000000010a2110dd0000413138333634383236313031354e343731382e383035314530313835342e34333837302e313132310b03"],
    "hrnp-rcp": ["024108050000d20400000e03", "02471808000000000000000000cb03", "0245b810000100040004000000fd080000fa372300c303"],
}


def rate_cls(kind):
    from okdmr.dmrlib.etsi.layer2.pdu.rate12_data import Rate12Data, Rate12DataTypes
    from okdmr.dmrlib.etsi.layer2.pdu.rate1_data import Rate1Data, Rate1DataTypes
    from okdmr.dmrlib.etsi.layer2.pdu.rate34_data import Rate34Data, Rate34DataTypes

    cls, tps, c, cl = {"r12": (Rate12Data, Rate12DataTypes, 10, 6), "r34": (Rate34Data, Rate34DataTypes, 16, 12), "r1": (Rate1Data, Rate1DataTypes, 22, 18)}[
        kind.rstrip("cl") if not kind.endswith("cl") else kind[:-2]]
    last = kind.endswith("cl")
    return cls, (tps.ConfirmedLastBlock if last else tps.Confirmed), (cl if last else c), last


def seeded_hdap(kind, R):
    """an RCP / TMP application payload object with seeded field values (every opcode the library can serialise and parse back); opaque
    octet fields (alias, text, raw values) are arbitrary octets - for HRNP they are a length-prefixed byte string"""
    import okdmr.dmrlib.hytera.pdu.radio_control_protocol as rcp
    from okdmr.dmrlib.hytera.pdu.radio_ip import RadioIP
    from okdmr.dmrlib.hytera.pdu.text_message_protocol import TextMessageProtocol, TMPService

    def octets(n):
        return bytes(R.choice([0, 0xFF, 0x80, 0xC3, 0xD8, 0x41, R.getrandbits(8)]) for _ in range(n))

    def text16(n):
        """n UTF-16 code units as octets, drawn from the values text handling trips over: byte order marks, NUL, surrogates, line ends"""
        pool = [0xFEFF, 0xFFFE, 0x0000, 0x0041, 0x0020, 0x000A, 0x000D, 0x00E1, 0x20AC, 0xD83D, 0xDE00, 0xFFFF, 0x0301]
        return b"".join((R.choice(pool) if R.random() < 0.6 else R.getrandbits(16)).to_bytes(2, "little") for _ in range(n))

    rel = R.random() < 0.5
    if kind == "hrnp-tmp":
        op = R.choice([TMPService.SendPrivateMessage, TMPService.SendGroupMessage])
        return TextMessageProtocol(opcode=op, is_reliable=rel, is_confirmed=R.random() < 0.5, request_id=R.choice([0, 1, 0xFFFFFFFF, R.getrandbits(32)]),
                                   destination_ip=RadioIP(radio_id=R.choice([1, 0xFFFFFF, R.getrandbits(24)])), source_ip=RadioIP(radio_id=R.choice([1, R.getrandbits(24)])),
                                   text_data=octets(R.choice([0, 1, 2, 3, 8, 9, 40])) if R.random() < 0.5 else text16(R.choice([1, 2, 3, 7, 20])))
    O = rcp.RCPOpcode
    ids = lambda: R.choice([0, 1, 0xFFFFFF, R.getrandbits(24), R.getrandbits(32)])
    ct = lambda: R.choice(list(rcp.RCPCallType))
    resl = lambda: R.choice(list(rcp.RCPResult))
    op = R.choice([O.CallRequest, O.CallReply, O.RepeaterBroadcastTransmitStatus, O.BroadcastMessageConfigurationReply, O.RadioIDAndRadioIPQueryRequest,
                   O.RadioIDAndRadioIPQueryReply, O.BroadcastStatusConfigurationRequest, O.BroadcastStatusConfigurationReply, O.SendTalkerAliasRequest,
                   O.SendTalkerAliasRequest, O.SendTalkerAliasReply, O.ZoneAndChannelOperationRequest, O.StatusChangeNotificationRequest,
                   O.StatusChangeNotificationRequest, O.StatusChangeNotificationReply, O.RadioStatusReport, O.UnknownService])
    kw = {}
    if op == O.CallRequest:
        kw = dict(call_type=ct(), target_id=ids())
    elif op in (O.CallReply, O.BroadcastMessageConfigurationReply, O.BroadcastStatusConfigurationReply, O.StatusChangeNotificationReply):
        kw = dict(result=resl())
    elif op == O.RepeaterBroadcastTransmitStatus:
        kw = dict(repeater_mode=R.choice(list(rcp.RepeaterMode)), repeater_status=R.choice(list(rcp.RepeaterStatus)),
                  repeater_service_type=R.choice(list(rcp.RepeaterServiceType)), call_type=ct(), target_id=ids(), sender_id=ids())
    elif op == O.RadioIDAndRadioIPQueryRequest:
        kw = dict(target=R.choice(list(rcp.RadioIpIdTarget)))
    elif op == O.RadioIDAndRadioIPQueryReply:
        kw = dict(result=resl(), target=R.choice(list(rcp.RadioIpIdTarget)), raw_value=octets(4))
    elif op == O.BroadcastStatusConfigurationRequest:
        n = R.choice([0, 1, 2, 5])
        kw = dict(broadcast_config_raw=bytes([n]) + octets(2 * n))
    elif op == O.SendTalkerAliasRequest:
        kw = dict(call_type=ct(), sender_id=ids(), target_id=ids(), talker_alias_format=R.choice(list(rcp.TalkerAliasDataFormat)),
                  talker_alias_data=octets(R.choice([0, 1, 3, 6, 7, 14, 31])))
    elif op == O.SendTalkerAliasReply:
        kw = dict(result=resl(), call_type=ct(), sender_id=ids(), target_id=ids())
    elif op == O.ZoneAndChannelOperationRequest:
        kw = dict(raw_payload=octets(5))
    elif op == O.StatusChangeNotificationRequest:
        tg = R.sample(list(rcp.StatusChangeNotificationTargets), R.choice([0, 1, 2, 4, 7]))
        kw = dict(status_change_settings={t: R.choice(list(rcp.StatusChangeNotificationSetting)) for t in tg})
    elif op == O.RadioStatusReport:
        kw = dict(status_change_target=R.choice(list(rcp.StatusChangeNotificationTargets)), status_change_value=R.choice([0, 1, 0xFFFF, R.getrandbits(16)]))
    elif op == O.UnknownService:
        kw = dict(raw_opcode=bytes([R.getrandbits(8) | 1, 0x7F]), raw_payload=octets(R.choice([0, 1, 4, 9])))
    return rcp.RadioControlProtocol(opcode=op, is_reliable=rel, **kw)


def make(kind, R):
    """build a PDU of this kind from seeded field values (biased to boundaries) and serialise it -> bit string"""
    from bitarray import bitarray
    from bitarray.util import int2ba

    from checks import air

    air._imports()

    def edge(bits):
        return R.choice([0, (1 << bits) - 1, 1 << R.randrange(bits), R.getrandbits(bits), R.getrandbits(bits)])

    if kind in DH:
        class _R:  # adapter: air.make_header wants random.Random API
            pass

        h = air.make_header(R, fmt=kind[3:], btf=edge(7) if kind != "dh-sdd" else edge(6), dst=edge(24), src=edge(24))
        return h.as_bits().to01()
    if kind == "pi":
        from okdmr.dmrlib.etsi.layer2.pdu.pi_header import PIHeader

        return PIHeader(data=bytes(R.choice([0, 255, R.getrandbits(8)]) for _ in range(10))).as_bits().to01()
    if kind.startswith("slc-"):
        from okdmr.dmrlib.etsi.layer2.elements.slcos import SLCOs
        from okdmr.dmrlib.etsi.layer2.pdu.short_link_control import ShortLinkControl
        from okdmr.dmrlib.etsi.layer3.elements.activity_id import ActivityID

        if kind == "slc-null":
            return ShortLinkControl(slco=SLCOs.NullMessage).as_bits().to01()
        return ShortLinkControl(slco=SLCOs.ActivityUpdate, ts1_activity_id=R.choice(list(ActivityID)), ts2_activity_id=R.choice(list(ActivityID)),
                                ts1_address=int2ba(edge(8), 8), ts2_address=int2ba(edge(8), 8)).as_bits().to01()
    if kind in RATE:
        cls, tp, nbytes, last = rate_cls(kind)
        data = bytes(R.choice([0, 255, R.getrandbits(8), R.getrandbits(8)]) for _ in range(nbytes))
        kw = {"crc32": bytes(R.getrandbits(8) for _ in range(4))} if last else {}
        return cls(data=data, packet_type=tp, dbsn=edge(7), **kw).as_bits().to01()
    if kind in HRNPK:
        from okdmr.dmrlib.hytera.pdu.hdap import HDAP
        from okdmr.dmrlib.hytera.pdu.hrnp import HRNP, HRNPOpcodes
        from okdmr.dmrlib.hytera.pdu.radio_ip import RadioIP
        from okdmr.dmrlib.hytera.pdu.radio_registration_service import RadioRegistrationService, RRSTypes

        common = dict(source=edge(8), destination=edge(8), packet_number=edge(16), block_number=edge(8), version=R.choice([0, 1, 2, 3, 4, 4, 4]))
        op = {"hrnp-connect": HRNPOpcodes.CONNECT, "hrnp-accept": HRNPOpcodes.ACCEPT, "hrnp-close": HRNPOpcodes.CLOSE, "hrnp-dataack": HRNPOpcodes.DATA_ACK}.get(kind, HRNPOpcodes.DATA)
        data = None
        if kind == "hrnp-rrs":
            data = RadioRegistrationService(opcode=R.choice([RRSTypes.RadioRegistrationRequest, RRSTypes.RadioGoingOffline, RRSTypes.RadioRegistrationAnswer]),
                                            radio_ip=RadioIP(radio_id=edge(24)), renew_time_seconds=R.randrange(1, 0xFFFE))
        elif kind in HDAP_HEX:
            data = None
            if kind in ("hrnp-rcp", "hrnp-tmp") and R.random() < 0.7:
                data = seeded_hdap(kind, R)  # application payload built through the public constructors from seeded field values
            if data is None:
                data = HDAP.from_bytes(bytes.fromhex(R.choice(HDAP_HEX[kind])))
        raw = HRNP(opcode=op, data=data, **common).as_bytes()
        if R.random() < 0.35:
            # adversarial CLEAN case, computed with the reference arithmetic: choose the packet number so that the 16-bit ones-complement
            # sum lands on the end-around-carry boundary (first fold produces another carry / sums 0xFFFF, 0x0000)
            body = raw[:10] + raw[12:]
            body += b"\x00" * (len(body) % 2)
            s0 = sum(int.from_bytes(body[i:i + 2], "big") for i in range(0, len(body), 2)) - int.from_bytes(raw[6:8], "big")
            for j in R.sample(range(-3, 4), 7):
                pn = (0xFFFF - (s0 & 0xFFFF) - (s0 >> 16) + j) & 0xFFFF
                tot = s0 + pn
                if (tot & 0xFFFF) + (tot >> 16) >= 0xFFFF:
                    common["packet_number"] = pn
                    raw = HRNP(opcode=op, data=data, **common).as_bytes()
                    break
        b = bitarray()
        b.frombytes(raw)
        return b.to01()
    raise KeyError(kind)


def parse(kind, bits):
    """receiver side: returns (object, indicator, serialiser)"""
    from bitarray import bitarray

    if kind in DH:
        from okdmr.dmrlib.etsi.layer2.pdu.data_header import DataHeader

        o = DataHeader.from_bits(bits)
        return o, o.crc_ok
    if kind == "pi":
        from okdmr.dmrlib.etsi.layer2.pdu.pi_header import PIHeader

        o = PIHeader.from_bits(bits)
        return o, o.crc_ok
    if kind.startswith("slc-"):
        from okdmr.dmrlib.etsi.layer2.pdu.short_link_control import ShortLinkControl

        o = ShortLinkControl.from_bits(bits)
        return o, o.crc_ok
    if kind in RATE:
        cls, tp, nbytes, last = rate_cls(kind)
        o = cls.from_bits_typed(bits, tp)
        return o, o.crc9_ok
    from okdmr.dmrlib.hytera.pdu.hrnp import HRNP

    o = HRNP.from_bytes(bits.tobytes())
    return o, o.checksum_correct


def reserialise(kind, o):
    from bitarray import bitarray

    if kind in HRNPK:
        b = bitarray()
        b.frombytes(o.as_bytes())
        return b
    return o.as_bits()


def _flipped(wire, p):
    c = wire.copy()
    for i in p:
        c.invert(i)
    return c


def std_patterns(kind, n, R, tier, full=None):
    """fault patterns in wire positions: ('w1'|'burst'|'w2'|'w3', positions)"""
    order, chk, poly, width, maxw, maxburst = layout(kind, n)
    out = [("w1", (i,)) for i in range(n)]
    ncode = len(order)
    inter = 1 if tier == "quick" else 3
    for L in range(2, maxburst + 1):
        for s in range(0, ncode - L + 1):
            out.append(("burst", tuple(sorted(order[s + j] for j in range(L)))))
            for _ in range(inter if L > 2 else 0):
                inner = [s] + [s + j for j in range(1, L - 1) if R.random() < 0.5] + [s + L - 1]
                out.append(("burst", tuple(sorted(order[j] for j in inner))))
    if full == "w2" and maxw >= 2:
        out += [("w2", p) for p in itertools.combinations(range(n), 2)]
    elif maxw >= 2:
        out += [("w2", tuple(sorted(R.sample(range(n), 2)))) for _ in range(300)]
    if full == "w3" and maxw >= 3:
        out += [("w3", p) for p in itertools.combinations(range(n), 3)]
    elif maxw >= 3:
        out += [("w3", tuple(sorted(R.sample(range(n), 3)))) for _ in range(300)]
    return out


class C04(Check):
    pid = "C04"
    library_exception_is_violation = True  # every call made in execute() is one the property covers, with valid arguments
    level = "fault_enumeration"
    chunk = 4
    run_timeout = 900.0
    rule = ("small FEC words: EVERY received word (2^20 slot type, 2^16 EMB) parsed, indicator compared with membership in the set of Golay / QR encoder "
            "outputs. CRC-protected PDUs (DataHeader x5 formats, PIHeader, ShortLC x2, rate 1/2 / 3/4 / 1 confirmed and confirmed-last blocks, HRNP x8 "
            "payload kinds) built from seeded boundary-biased fields: clean parse (indicator must be true), every single-bit error, every burst of length "
            "2..check width at every offset in the code's bit order (all-ones and seeded interiors), weight-2/3 patterns where the code guarantees them "
            "(sampled; complete per PDU in the full arms). distinct_nontrivial = distinct (PDU kind, fault class, part hit: data / check / both, outcome: "
            "raised / indicator false / accepted with equal fields) cells")
    real_components = ["SlotType, EmbeddedSignalling, DataHeader, PIHeader, ShortLinkControl, Rate12/34/1Data (constructors, as_bits, from_bits[_typed])",
                       "HRNP + HDAP (RRS/TMP/LP/RCP) as_bytes/from_bytes", "CRC8/CRC9/CRC16, Golay2087, QuadraticResidue1676"]
    stub_components = ["corrupting channel (code-order layout table per PDU)", "reference GF(2) division / ones-complement sum guarding the injector",
                       "type-aware recursive field dump used to compare parsed PDUs"]
    assumptions = ["baseline for 'different field values' is the parse of the uncorrupted wire bits (encoder fidelity is C03's subject)",
                   "CRC-9 patterns stop at weight 2 and HRNP bursts at 15 bits: that is the codes' real guarantee",
                   "known findings are matched narrowly: (a) received check field all-zero, (d) accepted PDU re-serialises differently from the received covered bits",
                   "an accepted corruption with EQUAL field values (bits the PDU does not carry) is reported too (C04.corruption-accepted-equal-fields): the indicator must tell the truth about the received bits"]
    exhaustive = {}

    def preload(self):
        from checks import air

        air._imports()
        import okdmr.dmrlib.etsi.layer2.pdu.pi_header  # noqa
        import okdmr.dmrlib.etsi.layer2.pdu.short_link_control  # noqa
        import okdmr.dmrlib.hytera.pdu.hrnp  # noqa
        import okdmr.dmrlib.hytera.pdu.location_protocol  # noqa
        import okdmr.dmrlib.hytera.pdu.radio_control_protocol  # noqa
        import okdmr.dmrlib.hytera.pdu.text_message_protocol  # noqa
        from checks import c19

        c19.preload_cotenant()

    def budget(self, tier):
        return 240.0 if tier == "quick" else 2400.0

    def arms(self, tier):
        q = tier == "quick"
        per = 24 if q else 200
        arms = [("slot", 256), ("emb", 16), ("smallmix", 32 if q else 400), ("pdu", len(PDU_KINDS) * per), ("full-w2", len(PDU_KINDS) if q else 4 * len(PDU_KINDS))]
        if not q:
            arms.append(("full-w3", 16))
        return arms

    def generate(self, arm, index, streams, tier):
        if arm == "slot":
            return {"task": "slot", "range": [index << 12, (index + 1) << 12], "order_seed": streams["sched"].getrandbits(32)}
        if arm == "emb":
            return {"task": "emb", "range": [index << 12, (index + 1) << 12], "order_seed": streams["sched"].getrandbits(32)}
        w = streams["work"]
        if arm == "smallmix":
            ops = []
            share = w.random() < 0.7  # the two codes see the same few information values (one radio system: same colour code, few data types)
            infos = [w.randrange(128) for _ in range(w.choice([1, 3, 8]))]
            for _ in range(w.choice([200, 1000, 3000])):
                kd = w.choice(["SlotType", "EMB"])
                n, k = (20, 8) if kd == "SlotType" else (16, 7)
                x = w.random()
                if x < 0.75:
                    info = w.choice(infos) if share and w.random() < 0.8 else w.randrange(1 << k)
                    nf = w.choice([0, 0, 0, 1, 1, 2, 3])
                    ops.append([kd, f"cw:{info}:" + ",".join(str(p) for p in sorted(w.sample(range(n), nf)))])
                else:
                    ops.append([kd, format(w.getrandbits(n), f"0{n}b")])
            return {"task": "smallmix", "ops": ops}
        if arm == "full-w3":
            kind = (DH + ["pi", "slc-null", "slc-act"])[index % 8]
            return {"task": "pdu", "kind": kind, "wire": make(kind, w), "pseed": w.getrandbits(32), "full": "w3", "tier": tier}
        kind = PDU_KINDS[index % len(PDU_KINDS)]
        gs = w.getrandbits(48)
        try:
            wire0 = make(kind, random.Random(gs))
        except Exception:
            # the library refused to build / serialise a PDU from legal field values: judged in execute(), where the same construction is repeated
            return {"task": "pdu-build", "kind": kind, "gen_seed": gs}
        case = {"task": "pdu", "kind": kind, "wire": wire0, "pseed": w.getrandbits(32), "full": "w2" if arm == "full-w2" else None, "tier": tier}
        if streams["knobs"].random() < 0.15:
            from checks import c19

            # the receiving application also uses other parts of the library (other PDU types, CRCs, codecs) before and between these receptions
            case["cotenant"] = c19.gen_cotenant(streams["cotenant"], n=w.choice([4, 10, 20]), prefer=["CRC", "Header", "Rate", "HRNP", "HDAP", "CSBK", "LinkControl", "Burst"])
        return case

    def sample(self, case):
        return {k: v for k, v in case.items() if k in ("task", "kind", "wire", "range", "full", "ops")}

    def simplify(self, case):
        if case.get("cotenant"):
            yield {kk: v for kk, v in case.items() if kk != "cotenant"}
        io = case.get("inplace_ops") or []
        if len(io) > 1:
            yield dict(case, inplace_ops=io[-1:])
            for k in range(len(io) - 1):
                yield dict(case, inplace_ops=io[:k] + io[k + 1:])
        ops = case.get("ops") or []
        if len(ops) == 1 and len(ops[0]) > 1:
            p = ops[0]
            for k in range(len(p)):
                yield dict(case, ops=[p[:k] + p[k + 1:]])

    # ---------------------------------------------------------------- execution

    def execute(self, case):
        from bitarray import bitarray
        from bitarray.util import ba2int, int2ba

        from dsim import known

        res = core.RunResult()
        log = core.EventLog()
        seen = {}
        kf = known.load()

        def fail(oracle, site, detail, sub, sig):
            ent = known.match(kf, "C04", {"oracle": oracle, "site": site, "sig": sig})
            # one record per (oracle, site, known finding that explains it / none): an unexplained violation is never counted into an explained one
            key = (oracle, site, ent["id"] if ent else None)
            if key in seen:
                seen[key]["count"] = seen[key].get("count", 1) + 1
                return
            res.violate(oracle, site, detail, sig=sig)
            v = res["viol"][-1]
            sub = dict(sub)
            sub.update(property="C04", arm=case.get("arm"), run=case.get("run"))
            v["case"] = sub
            seen[key] = v

        task = case["task"]
        if task == "pdu-build":
            # serialise-then-parse starts with serialising: the construction that failed while the case was generated is repeated here, and an exception out
            # of the library's own code is the violation C04.library-call-raised (driver: library_exception_is_violation)
            make(case["kind"], random.Random(case["gen_seed"]))
            res["digest"] = log.digest()
            return res
        if task == "smallmix":
            # one receiver process parses slot-type words AND embedded-signalling words, interleaved in a seeded order (the sweeps above use
            # one code per process): whichever code, information value or word comes first must not matter to the other
            from okdmr.dmrlib.etsi.fec.golay_20_8_7 import Golay2087
            from okdmr.dmrlib.etsi.fec.quadratic_residue_16_7_6 import QuadraticResidue1676
            from okdmr.dmrlib.etsi.layer2.pdu.embedded_signalling import EmbeddedSignalling
            from okdmr.dmrlib.etsi.layer2.pdu.slot_type import SlotType

            tab = {"SlotType": (Golay2087, SlotType, 20, 8, "fec_parity_ok"), "EMB": (QuadraticResidue1676, EmbeddedSignalling, 16, 7, "emb_parity_ok")}
            ops = case["ops"]
            cwsets = {}
            for wpos, (kd, spec) in enumerate(ops):
                FEC, PDU, n, k, ind = tab[kd]
                if kd not in cwsets:  # built on first use of that code in this process (part of the history, like in a real receiver)
                    cwsets[kd] = {ba2int(bitarray(FEC.generate(int2ba(m, k)).tolist())) for m in range(1 << k)}
                if spec.startswith("cw:"):  # codeword of this information value, with these positions inverted
                    _, info, flips = spec.split(":")
                    wd = bitarray(FEC.generate(int2ba(int(info), k)).tolist())
                    for fp in (int(x) for x in flips.split(",") if x):
                        wd.invert(fp)
                else:
                    wd = bitarray(spec)
                wi = ba2int(wd)
                res["evals"] += 1
                try:
                    got = bool(getattr(PDU.from_bits(wd.copy()), ind))
                except Exception:
                    got = None
                member = wi in cwsets[kd]
                if got is None:
                    if member:
                        fail("C04.small-word-membership", f"{kd}:codeword-raises", f"{kd} codeword {wd.to01()} raised while parsing (call #{wpos} of a mixed slot-type/EMB history)",
                             {"task": "smallmix", "ops": [list(o) for o in ops[: wpos + 1]]}, {"kind": kd, "check_zero": False})
                    continue
                if got != member:
                    zero = not wd[k:].any()
                    fail("C04.small-word-membership", f"{kd}:{'accepts-non-codeword' if got else 'rejects-codeword'}",
                         f"{kd} received word {wd.to01()}: {ind}={got}, word is {'a' if member else 'not a'} codeword of the FEC (call #{wpos} of a mixed slot-type/EMB history)",
                         {"task": "smallmix", "ops": [list(o) for o in ops[: wpos + 1]]}, {"kind": kd, "check_zero": zero and not member})
                res["cov"].add(f"{kd}|mixed|{int(member)}")
            res.fault("mixed_code_history", len(ops))
            log.add(0, task, "smallmix", len(ops))
            res["ops"] = len(ops)
            res["digest"] = log.digest()
            return res
        if task in ("slot", "emb"):
            if task == "slot":
                from okdmr.dmrlib.etsi.fec.golay_20_8_7 import Golay2087 as FEC
                from okdmr.dmrlib.etsi.layer2.pdu.slot_type import SlotType as PDU

                n, k, ind, kind = 20, 8, "fec_parity_ok", "SlotType"
            else:
                from okdmr.dmrlib.etsi.fec.quadratic_residue_16_7_6 import QuadraticResidue1676 as FEC
                from okdmr.dmrlib.etsi.layer2.pdu.embedded_signalling import EmbeddedSignalling as PDU

                n, k, ind, kind = 16, 7, "emb_parity_ok", "EMB"
            cws = {ba2int(bitarray(FEC.generate(int2ba(m, k)).tolist())) for m in range(1 << k)}
            words = [tuple(o) for o in case["ops"]] if "ops" in case else None
            rng = [int(o, 2) for o in case["ops"]] if "ops" in case else list(range(case["range"][0], min(case["range"][1], 1 << n)))
            if "ops" not in case and case.get("order_seed") is not None:
                random.Random(case["order_seed"]).shuffle(rng)  # complete block, seeded visiting order
            acc = 0
            for wpos, wi in enumerate(rng):
                wd = int2ba(wi, n)
                res["evals"] += 1
                try:
                    got = bool(getattr(PDU.from_bits(wd), ind))
                except Exception as e:
                    got = None
                acc += bool(got)
                member = wi in cws
                if got is None:
                    continue  # a decode error is an allowed outcome only for non-members
                if got != member:
                    zero = not wd[k:].any()
                    sig = {"kind": kind, "check_zero": zero and not member}
                    v0 = {"oracle": "C04.small-word-membership", "sig": sig}
                    # the replayable case is the single word, unless no known finding explains it: then the parse history of this
                    # block up to the word is kept (an indicator may depend on words parsed earlier) and minimised by ddmin
                    hist = [wd.to01()]
                    if known.match(kf, "C04", v0) is None and "range" in case:
                        hist = [int2ba(x, n).to01() for x in rng[: wpos + 1]]
                    fail("C04.small-word-membership", f"{kind}:{'accepts-non-codeword' if got else 'rejects-codeword'}",
                         f"{kind} received word {wd.to01()}: {ind}={got}, word is {'a' if member else 'not a'} codeword of the FEC",
                         {"task": task, "ops": hist}, sig)
            if "range" in case:
                res["cov"].add(f"{kind}|all-words|{case['range'][0] >> 12}")
                res.fault("received_word_sweep", len(rng))
            log.add(0, task, "sweep", (list(case.get("range", [])), acc))
            res["ops"] = len(rng)
            res["digest"] = log.digest()
            return res

        kind = case["kind"]
        wire = bitarray(case["wire"])
        n = len(wire)
        order, chk, poly, width, maxw, maxburst = layout(kind, n)
        chkset = set(chk)
        codepos = {p: i for i, p in enumerate(order)}
        sub0 = {"task": "pdu", "kind": kind, "wire": case["wire"]}
        co = case.get("cotenant") or []
        if co:
            from checks import c19

            sub0["cotenant"] = co
            c19.run_cotenant(co[: len(co) // 2])
            res.fault("cotenant_library_calls", len(co))
        try:
            base, ind0 = parse(kind, wire.copy())
        except Exception as e:
            fail("C04.clean-parse-raises", kind, f"{kind}: parsing the PDU the library serialised raised {type(e).__name__}: {e}", dict(sub0, ops=[[]]), {"kind": kind})
            res["digest"] = log.digest()
            return res
        res["evals"] += 1
        if not ind0:
            fail("C04.clean-indicator-false", case.get("clean_site", kind), f"{kind}: library-built PDU {case['wire']} parses back with its indicator False",
                 dict(sub0, ops=[[]], **({"clean_site": case["clean_site"]} if case.get("clean_site") else {})), {"kind": kind})
            res["digest"] = log.digest()
            return res
        res["cov"].add(f"{kind}|clean|-|true")
        if "ops" not in case and poly is not None and case.get("pseed", 0) % 4 == 0:
            # boundary-targeted CLEAN words, computed with the reference arithmetic: message bits are changed so that the check field of the (still valid)
            # word comes out all-ones / all-ones-but-one / 1 / top bit only -- values a range test or a sentinel test in a checker trips over.  The word
            # counts only if the library itself serialises exactly these bits for the PDU it parses from them (then it is "a PDU the library serialised")
            r4 = random.Random(case.get("pseed", 0) ^ 0xADC)
            cpos = order[-width:]
            msgpos = order[:-width]
            for T in ((1 << width) - 1, (1 << width) - 2, 1, 1 << (width - 1)):
                y = [cpos[i] for i in range(width) if int(wire[cpos[i]]) != ((T >> (width - 1 - i)) & 1)]
                if not y:
                    continue

                def synd(positions):
                    e = [0] * len(order)
                    for pp in positions:
                        e[codepos[pp]] = 1
                    return ref_rem(e, poly, width)

                cand = r4.sample(msgpos, min(len(msgpos), 40))
                basis = {}  # leading bit -> (syndrome, set of positions)
                for pp in cand:
                    sv, ps = synd([pp]), {pp}
                    while sv:
                        hb = sv.bit_length()
                        if hb not in basis:
                            basis[hb] = (sv, ps)
                            break
                        sv, ps = sv ^ basis[hb][0], ps ^ basis[hb][1]
                tv, xs, okk = synd(y), set(), True
                while tv:
                    hb = tv.bit_length()
                    if hb not in basis:
                        okk = False
                        break
                    tv, xs = tv ^ basis[hb][0], xs ^ basis[hb][1]
                if not okk:
                    continue
                w2 = wire.copy()
                for pp in list(xs) + y:
                    w2.invert(pp)
                try:
                    q2, ind2 = parse(kind, w2.copy())
                    if reserialise(kind, q2).to01() != w2.to01():
                        continue  # (normalised fields: the library would not serialise this word)
                except Exception:
                    continue
                res["evals"] += 1
                res.fault("clean_word_with_boundary_check_value")
                res["cov"].add(f"{kind}|clean|check={T:x}|{'true' if ind2 else 'false'}")
                if not ind2:
                    fail("C04.clean-indicator-false", f"{kind}:check-value-{T:x}", f"{kind}: the PDU {w2.to01()} (as the library serialises it; check field {T:#x}) parses back with its indicator False",
                         {"task": "pdu", "kind": kind, "wire": w2.to01(), "ops": [[]], "clean_site": f"{kind}:check-value-{T:x}"}, {"kind": kind})
        if kind in HRNPK and ("ops" not in case or case.get("hist")) or case.get("pclass") == "modify":
            # HRNP documents that its checksum is computed from the data assembled at serialisation time: a parsed packet whose fields were
            # assigned afterwards (what an application forwarding packets does) must serialise with a checksum that verifies
            from okdmr.dmrlib.hytera.pdu.hrnp import HRNP

            r2 = random.Random(case.get("pseed", 1))
            q0 = HRNP.from_bytes(wire.tobytes())
            for attr, bits in (("source", 8), ("destination", 8), ("packet_number", 16), ("block_number", 8)):
                if r2.random() < 0.6:
                    setattr(q0, attr, r2.getrandbits(bits))
            again = HRNP.from_bytes(q0.as_bytes())
            res["evals"] += 1
            if not again.checksum_correct or not ones_complement_valid(q0.as_bytes()):
                fail("C04.clean-indicator-false", kind + ":modified-after-parse", f"{kind}: packet {wire.tobytes().hex()} parsed, fields re-assigned, serialised as "
                     f"{q0.as_bytes().hex()}: parses back with checksum_correct={again.checksum_correct} (reference sum valid: {ones_complement_valid(q0.as_bytes())})",
                     dict(sub0, ops=[[0]], pclass="modify", pseed=case.get("pseed", 1)), {"kind": kind})
            res["cov"].add(f"{kind}|modified-after-parse")
        bf = canon(base)
        if "ops" in case:
            pats = [(case.get("pclass", "replay"), tuple(p)) for p in case["ops"] if p]
        else:
            pats = std_patterns(kind, n, random.Random(case["pseed"]), case.get("tier", "quick"), case.get("full"))
        if poly is not None and "ops" not in case:
            # adversarial error patterns computed with the reference arithmetic: the code is affine, so every word the library builds for this
            # PDU kind has the same reference syndrome K (taken here as the majority over a few more library-built words).  If this word's
            # syndrome differs by delta, then for every window of <width> consecutive code positions there is exactly one burst confined to that
            # window whose syndrome is delta - the one corruption a checker that agrees with this word would also agree with.  Those bursts are
            # added to the patterns (they are non-codewords: the guard below re-checks) and judged like every other pattern.
            def synd(b01):
                return ref_rem([int(b01[pp]) for pp in order], poly, width)

            r3 = random.Random(case["pseed"] ^ 0x5EED)
            others = []
            for _ in range(5):
                try:
                    o01 = make(kind, r3)
                    if len(o01) == n:
                        others.append(synd(o01))
                except Exception:
                    pass
            if others:
                K = max(sorted(set(others)), key=others.count)
                delta = synd(case["wire"]) ^ K
                if delta:
                    gfull = (1 << width) | poly
                    N = len(order)
                    E = delta
                    for _ in range(width):  # ref_rem is the direct (non-augmented) form: the syndrome of a pattern P(x) is P(x) * x^width mod g
                        E = (E ^ gfull) >> 1 if E & 1 else E >> 1
                    crafted = {}
                    for s0 in range(N - width, -1, -1):  # window [s0, s0+width): E = delta * x^-(N-width-s0) mod g
                        if s0 < N - width:
                            E = (E ^ gfull) >> 1 if E & 1 else E >> 1
                        crafted[s0] = tuple(sorted(order[s0 + j] for j in range(width) if (E >> (width - 1 - j)) & 1))
                    pats = pats + [("burst", pp) for s0, pp in sorted(crafted.items()) if pp]
                    res.probe("clean_word_syndrome_differs_from_kind_constant")
                    res.fault("crafted_burst", len(crafted))
        if "ops" not in case:
            # sentinel values of the check field itself: the corruption that leaves the received check field all-zero / all-ones (a checker
            # that treats such a value as "absent" or "wildcard" then accepts the word).  Confined to the check field, so within every code's
            # burst guarantee; non-codewords are re-checked by the guard below
            zero_p = tuple(i for i in chk if wire[i])
            ones_p = tuple(i for i in chk if not wire[i])
            pats = pats + [("burst", pp) for pp in (zero_p, ones_p) if pp]
            res.fault("check_field_sentinel_pattern", bool(zero_p) + bool(ones_p))
            # the data-type CRC masks of the standard (B.3.12) and their pairwise differences, applied to the check field: what a receiver sees when a
            # sender used another PDU's mask or none at all -- a parser that "tolerates" that accepts a corrupted check field
            if poly is not None and len(chk) == width and width in (16, 9):
                ms = [0x6969, 0xA5A5, 0xAAAA, 0xCCCC, 0x3333] if width == 16 else [0x0F0, 0x1FF, 0x10F]
                vals = sorted(set(ms) | {a ^ b for a in ms for b in ms if a != b})
                pats = pats + [("burst", tuple(chk[j] for j in range(width) if (m >> (width - 1 - j)) & 1)) for m in vals]
                res.fault("check_field_mask_confusion_pattern", len(vals))
        dropped = 0
        for pn, (cls, p) in enumerate(pats):
            if co and pn == len(pats) // 2:
                c19.run_cotenant(co[len(co) // 2:])
            if pn % 64 == 63:  # a failing parse (truncated word) between receptions: whatever it leaves behind must not matter
                try:
                    parse(kind, wire[: max(0, n // 2 - 1)].copy())
                except Exception:
                    pass
            # guard: the pattern must be a non-codeword of the standard's code (computed, not assumed)
            if poly is not None:
                e = [0] * len(order)
                for i in p:
                    e[codepos[i]] = 1
                if ref_rem(e, poly, width) == 0:
                    dropped += 1
                    continue
            c = wire.copy()
            for i in p:
                c.invert(i)
            if poly is None and ones_complement_valid(c.tobytes()):
                dropped += 1
                continue
            res["evals"] += 1
            hit = "check" if all(i in chkset for i in p) else ("data" if not any(i in chkset for i in p) else "both")
            try:
                q, ind = parse(kind, c.copy())
            except Exception:
                res["cov"].add(f"{kind}|{cls}|{hit}|raised")
                continue
            if not ind:
                res["cov"].add(f"{kind}|{cls}|{hit}|false")
                continue
            same_fields = canon(q) == bf
            check_zero = not any(c[i] for i in chk)
            try:
                wq = reserialise(kind, q)
                reser_pos = [i for i in range(n) if i not in chkset and (i >= len(wq) or wq[i] != c[i])] + ([-1] if len(wq) != len(c) else [])
                reser = bool(reser_pos)
                # does the accepted PDU still carry the check field it RECEIVED?  (D11 accepts a word because the received check value happens to fit the
                # normalised fields; a parser that throws the received value away and generates a fresh one accepts for another reason)
                reser_chk = any(i < len(wq) and wq[i] != c[i] for i in chkset)
            except Exception:
                reser, reser_pos, reser_chk = True, [-2], False
            res["cov"].add(f"{kind}|{cls}|{hit}|accepted-{'equal' if same_fields else 'different'}-fields")
            fail("C04.corruption-accepted-equal-fields" if same_fields else "C04.silent-accept", f"{kind}:{cls}",
                 f"{kind}: wire {case['wire']} with bits {list(p)} inverted is accepted (indicator True) with {'equal' if same_fields else 'different'} field values"
                 f"{' [received check field all-zero]' if check_zero else ''}{' [accepted PDU re-serialises differently from the received bits]' if reser else ''}",
                 dict(sub0, ops=[list(p)], pclass=cls), {"kind": kind, "check_zero": check_zero, "reser_differs": reser, "reser_pos": reser_pos[:40],
                                                         "fields": "equal" if same_fields else "different", "flipped": list(p)[:40],
                                                         "reser_check_differs": reser_chk})
        # the clean word again after this reception history (corrupted receptions, failing parses): what the library serialised must still
        # parse back with its indicator true and the same field values - a long-lived receiver sees exactly this sequence
        if "ops" not in case or case.get("hist"):
            try:
                q1, ind1 = parse(kind, wire.copy())
                again1 = ("ok", bool(ind1), canon(q1) == bf)
            except Exception as e:
                again1 = ("raised", type(e).__name__)
            res["evals"] += 1
            if again1 != ("ok", True, True):
                fail("C04.clean-outcome-changed-after-history", kind,
                     f"{kind}: library-built PDU {case['wire']} parsed with indicator True before {len(pats)} corrupted receptions of it, afterwards the same clean bits give "
                     f"{again1} (outcome, indicator, same field values)",
                     dict(sub0, ops=[list(pp) for _, pp in pats], pclass="std", hist=1, pseed=case.get("pseed", 1)), {"kind": kind, "history": True})
        # in-place pass: a receiver that re-uses ONE buffer object (corrupting and restoring it in place) must see, for every pattern,
        # exactly the outcome the copy-based pass above recorded for the same received bits
        if "inplace_ops" in case:
            sample = [("inplace", tuple(p)) for p in case["inplace_ops"]]
        else:
            sample = [(cls, p) for cls, p in pats if cls == "w1"] + [(cls, p) for cls, p in pats if cls == "burst"][:: max(1, len(pats) // 300)]
            if "ops" in case:
                sample = []  # replay of a copy-based violation: no in-place pass
        if sample:
            def outcome(bits):
                try:
                    q, ind = parse(kind, bits)
                except Exception as e:
                    return ("raised",)
                return ("ok", bool(ind), core.dumps(canon(q)))

            wants = [outcome(_flipped(wire, p)) for _, p in sample]  # copy-based truth first, then a pure in-place history
            buf = wire.copy()
            outcome(buf)  # the receiver's first use of its buffer: the clean word
            for si, (cls, p) in enumerate(sample):
                want = wants[si]
                for i in p:
                    buf.invert(i)
                got = outcome(buf)
                for i in p:
                    buf.invert(i)
                res["evals"] += 1
                if got != want:
                    fail("C04.indicator-depends-on-buffer-history", kind,
                         f"{kind}: wire {case['wire']} with bits {list(p)} inverted IN PLACE in a re-used buffer parses as {got[:2]}, a fresh copy of the same bits parses as {want[:2]}",
                         # the whole history of this run is the case: copy-based patterns (ops) then the in-place patterns; ddmin + simplify() shrink both
                         dict(sub0, ops=[list(pp) for _, pp in pats], pclass="std", hist=1, pseed=case.get("pseed", 1), inplace_ops=[list(pp) for _, pp in sample[: si + 1]]),
                         {"kind": kind, "inplace": True})
                    break
            res["cov"].add(f"{kind}|inplace-pass")
            res.fault("inplace_buffer_reuse", len(sample))
        for k2 in ("w1", "burst", "w2", "w3", "replay"):
            cnt = sum(1 for cls, _ in pats if cls == k2)
            if cnt:
                res.fault({"w1": "single_bit", "burst": "burst_error", "w2": "corrupt_bits_w2", "w3": "corrupt_bits_w3", "replay": "replay"}[k2], cnt)
        if dropped:
            res.probe("pattern_dropped_by_guard_is_codeword", dropped)
        log.add(0, kind, "pdu", (case["wire"], res["evals"], len(res["viol"])))
        res["ops"] = len(pats)
        res["digest"] = log.digest()
        return res


CHECKS = {"C04": C04()}
