"""C06 — Hamming / Golay / QR block codes: enumeration of channel bit errors and received words.

Transmitter = real X.generate; channel inverts chosen bits; receiver = real X.check /
X.check_and_correct.  Oracle = set arithmetic over the encoder's own outputs (the property is
one of self-consistency: systematic, outputs accepted, accepted set == 2^k outputs, distance >= d).
"""
import itertools
import os

from dsim import core
from dsim.base import Check

CODES = {
    "H743": ("okdmr.dmrlib.etsi.fec.hamming_7_4_3", "Hamming743", 7, 4, 3, True),
    "H1393": ("okdmr.dmrlib.etsi.fec.hamming_13_9_3", "Hamming1393", 13, 9, 3, True),
    "H15113": ("okdmr.dmrlib.etsi.fec.hamming_15_11_3", "Hamming15113", 15, 11, 3, True),
    "H16114": ("okdmr.dmrlib.etsi.fec.hamming_16_11_4", "Hamming16114", 16, 11, 4, True),
    "H17123": ("okdmr.dmrlib.etsi.fec.hamming_17_12_3", "Hamming17123", 17, 12, 3, True),
    "G2087": ("okdmr.dmrlib.etsi.fec.golay_20_8_7", "Golay2087", 20, 8, 7, False),
    "QR1676": ("okdmr.dmrlib.etsi.fec.quadratic_residue_16_7_6", "QuadraticResidue1676", 16, 7, 6, False),
}
ORDER = list(CODES)
WBLOCK = 1 << 12  # received words per task
MBLOCK = 16  # messages per task


def get_code(name):
    import importlib

    mod, cls, n, k, d, ham = CODES[name]
    return getattr(importlib.import_module(mod), cls), n, k, d, ham


def word_tasks():
    t = []
    for c in ORDER:
        n = CODES[c][2]
        for a in range(0, 1 << n, WBLOCK):
            t.append((c, a, min(1 << n, a + WBLOCK)))
    return t


def cw_tasks():
    t = []
    for c in ORDER:
        k = CODES[c][3]
        step = 2 if c == "G2087" else (8 if c == "QR1676" else (MBLOCK if k < 11 else 64))
        for a in range(0, 1 << k, step):
            t.append((c, a, min(1 << k, a + step)))
    return t


class C06(Check):
    pid = "C06"
    level = "fault_enumeration"
    chunk = 3
    run_timeout = 600.0
    rule = ("complete enumeration for the seven block codes: every message (systematic, length, accepted), every single-bit channel error on every "
            "codeword of the five Hamming codes (repaired to the original), every double error on every (16,11,4) codeword (reported uncorrectable), every "
            "error pattern of weight 1..d-1 on every codeword of every code (rejected), and every received word of every code (accepted iff it is an "
            "encoder output); arm mixed interleaves check/correct/generate calls of several codes on related words in one process. distinct_nontrivial "
            "= distinct (code, fault weight, error lands in data part / parity part / both, outcome) cells")
    real_components = ["Hamming743/1393/15113/16114/17123 generate, check, check_and_correct", "Golay2087 generate/check", "QuadraticResidue1676 generate/check", "fec_utils"]
    stub_components = ["bit-flip channel", "oracle: set of encoder outputs per code"]
    assumptions = ["the generator matrices' agreement with the ETSI tables is not decidable offline; the oracle is the self-consistency the property states"]
    exhaustive = {"quick": True, "thorough": True}

    def preload(self):
        for c in ORDER:
            get_code(c)

    def budget(self, tier):
        return 200.0 if tier == "quick" else 1200.0

    def arms(self, tier):
        return [("codewords", len(cw_tasks())), ("words", len(word_tasks())), ("mixed", 64 if tier == "quick" else 2000)]

    def generate(self, arm, index, streams, tier):
        if arm == "words":
            c, a, b = word_tasks()[index]
            return {"task": "words", "code": c, "range": [a, b]}
        if arm == "codewords":
            c, a, b = cw_tasks()[index]
            return {"task": "codewords", "code": c, "range": [a, b]}
        # mixed: a history of calls on several codes over related words
        w = streams["work"]
        codes = w.sample(ORDER, w.choice([1, 2, 3, 5, 7]))
        reuse = streams["knobs"].choice([0.0, 0.2, 0.2, 0.9])  # how often the receiver re-uses its one long-lived buffer object per code
        ops = []
        recent = []
        for _ in range(w.choice([200, 1000, 3000, 9000])):
            c = w.choice(codes)
            n, k = CODES[c][2], CODES[c][3]
            x = w.random()
            if recent and x < 0.5:
                base = w.choice(recent)
                bits = (base + "0" * n)[:n]
                if w.random() < 0.5:
                    i = w.randrange(n)
                    bits = bits[:i] + ("1" if bits[i] == "0" else "0") + bits[i + 1:]
            elif x < 0.8:
                bits = "cw:" + format(w.getrandbits(k), f"0{k}b")  # codeword of a random message, resolved at execution
                if w.random() < 0.6:
                    bits += ":" + ",".join(str(p) for p in sorted(w.sample(range(n), w.choice([1, 1, 2]))))
            else:
                bits = format(w.getrandbits(n), f"0{n}b")
            op = w.choice(["check", "check", "correct"]) if CODES[c][5] else "check"
            if w.random() < 0.05:
                # a failing call by a sloppy co-caller (wrong length: raises); whatever it leaves behind must not matter
                ops.append([c, "bad", format(w.getrandbits(n + 3), f"0{n + 3}b")[: w.choice([n - 1, n + 1, k + 1, 0])]])
            if w.random() < 0.15:
                # the transmitter keeps using what generate() returned: the channel corrupts that very array in place
                op, bits = "generate!", format(w.getrandbits(k), f"0{k}b") + ":" + str(w.randrange(n))
            elif w.random() < reuse:
                bits = "rb:" + bits  # the received word is written INTO the receiver's long-lived buffer object, which is handed over as it is
            elif w.random() < 0.2:
                bits = "le:" + bits  # same bit sequence in a little-endian bitarray (legal, unusual)
            ops.append([c, op, bits])
            if not bits.startswith(("cw:", "le:", "rb:")) and op != "generate!":
                recent.append(bits)
                del recent[:-8]
            if len(ops) > 40 and w.random() < 0.01:
                ops.append(list(w.choice(ops[:24])))  # one of the very first calls of this process again, however much happened since
        ops += [list(o) for o in ops[:24]]
        return {"task": "ops", "ops": ops}

    def sample(self, case):
        if case.get("task") == "ops":
            return {"task": "ops", "n": len(case["ops"]), "ops": case["ops"][:6]}
        return {k: case[k] for k in ("task", "code", "range")}

    # ---------------------------------------------------------------- execution

    def execute(self, case):
        res = core.RunResult()
        at = [None, None]
        try:
            return self._execute(case, res, at)
        except Exception as e:
            # every call this check makes hands a word of the code's own length to generate / check / repair: an exception that comes out of
            # the library's code (not out of this harness) is the library failing the call, which none of the clauses allows
            import traceback

            root = os.path.realpath(core.repo_root())
            frames = traceback.extract_tb(e.__traceback__)
            if not frames or not os.path.realpath(frames[-1].filename).startswith(root + os.sep):
                raise
            code = case.get("code") or (case["ops"][at[0]][0] if at[0] is not None and at[0] < len(case.get("ops", [])) else "?")
            res.violate("C06.call-raises", code, f"{frames[-1].name} ({os.path.relpath(frames[-1].filename, root)}:{frames[-1].lineno}) raised {type(e).__name__}: {e} "
                        f"for a word of the code's own length" + (f" at call #{at[0]} {case['ops'][at[0]]}" if at[0] is not None and case.get("task", "ops") == "ops" else ""), at=at[0])
            res["digest"] = core.derive("C06raised", code, type(e).__name__)
            return res

    def _execute(self, case, res, at):
        from bitarray import bitarray
        from bitarray.util import ba2int, int2ba

        log = core.EventLog()
        sets = {}

        def codeset(c):
            if c not in sets:
                cls, n, k, d, ham = get_code(c)
                s = {}
                for m in range(1 << k):
                    s[ba2int(bitarray(cls.generate(int2ba(m, k)).tolist()))] = m
                sets[c] = s
            return sets[c]

        def fail(oracle, site, detail, ops):
            if not any(v["oracle"] == oracle and v["site"] == site for v in res["viol"]):
                res.violate(oracle, site, detail, at=ops_at[0])
                if ops is not None:  # enumeration arms: the single failing call is the replayable case; mixed arm: the whole history
                    res["viol"][-1]["case"] = {"property": "C06", "task": "ops", "ops": ops, "arm": case.get("arm"), "run": case.get("run")}
            else:
                for v in res["viol"]:
                    if v["oracle"] == oracle and v["site"] == site:
                        v["count"] = v.get("count", 1) + 1

        ops_at = at
        task = case.get("task", "ops")
        if task == "ops":
            for c in sorted({o[0] for o in case["ops"]}):
                codeset(c)
            recent = []
            rbufs = {}
            for i, (c, op, bits) in enumerate(case["ops"]):
                ops_at[0] = i
                cls, n, k, d, ham = get_code(c)
                cs = codeset(c)
                little = bits.startswith("le:")
                rbuf = bits.startswith("rb:")
                if little or rbuf:
                    bits = bits[3:]
                if op == "correct-np2":
                    import numpy

                    dtn, _, b01 = bits.partition(":")
                    rxl = [int(x) for x in b01]
                    try:
                        back = [int(x) & 1 for x in cls.correct_numpy_array(numpy.array(rxl, dtype=numpy.dtype(dtn))).tolist()]
                    except Exception as e:
                        back = type(e).__name__
                    if back != rxl:
                        fail("C06.double-error-reported", c + ":ndarray", f"call #{i}: H16114.correct_numpy_array({dtn} {b01}) = {back} instead of the word unchanged", None)
                    res["evals"] += 1
                    ops_at[0] = i
                    continue
                if op in ("generate-np", "correct-np", "generate-np-held"):
                    import numpy

                    if op == "generate-np-held":
                        a0, b0 = (int(x) for x in bits.split(":"))
                        held = []
                        for m in range(a0, b0):
                            dt = [int, numpy.uint8, bool, numpy.int64][m % 4]
                            want = [int(x) for x in cls.generate(int2ba(m, k)).tolist()]
                            held.append((m, cls.generate(numpy.array([int(x) for x in int2ba(m, k).tolist()], dtype=dt)), want))
                        for m, garr, want in held:
                            if [int(x) & 1 for x in garr.tolist()] != want:
                                fail("C06.result-aliased", c, f"{c}: array returned by generate() for message {m} changed after later generate() calls", None)
                                break
                    else:
                        dtn, _, b01 = bits.partition(":")
                        readonly = dtn.startswith("R")
                        dtn = dtn[1:] if readonly else dtn
                        strided = dtn.startswith("s")
                        dtn = dtn[1:] if strided else dtn
                        arr = numpy.array([int(x) for x in b01], dtype=numpy.dtype(dtn))
                        if readonly:
                            arr.flags.writeable = False
                        if strided:
                            tbl = numpy.zeros((len(b01), 2), dtype=numpy.dtype(dtn))
                            tbl[:, 0] = arr
                            arr = tbl[:, 0]
                        if op == "generate-np":
                            want = [int(x) for x in cls.generate(bitarray(b01)).tolist()]
                            try:
                                got = [int(x) & 1 for x in cls.generate(arr).tolist()]
                            except Exception as e:
                                got = type(e).__name__
                            if got != want:
                                fail("C06.container", c, f"call #{i}: {c}.generate(ndarray {dtn} {b01}) = {got}, with a bitarray message {want}", None)
                        else:
                            wi2 = int(b01, 2)
                            near = [x for x in cs if bin(x ^ wi2).count("1") <= 1]
                            try:
                                got = [int(x) & 1 for x in cls.correct_numpy_array(arr).tolist()]
                            except Exception as e:
                                got = type(e).__name__
                                fail("C06.container", c, f"call #{i}: {c}.correct_numpy_array({dtn}{' strided' if strided else ''} {b01}) raised {got}", None)
                            if near and got != [int(x) for x in format(near[0], f"0{n}b")]:
                                fail("C06.single-error-repair", c, f"call #{i}: {c}.correct_numpy_array({dtn} {b01}) = {got}", None)
                    res["evals"] += 1
                    ops_at[0] = i
                    continue
                if op == "bad":
                    for f in (cls.check, cls.generate) + ((cls.check_and_correct,) if ham else ()):
                        try:
                            f(bitarray(bits))
                        except Exception:
                            pass
                    res.fault("failing_call")
                    continue
                if op == "generate!":
                    m, _, pos = bits.partition(":")
                    arr = cls.generate(bitarray(m))
                    cw = bitarray([int(x) for x in arr.tolist()])
                    res["evals"] += 1
                    ops_at[0] = i
                    if len(cw) != n or cw[:k] != bitarray(m):
                        fail("C06.systematic", c, f"call #{i}: {c}.generate({m}) = {cw.to01()} is not the message followed by {n - k} parity bits", None)
                    elif not cls.check(cw.copy()):
                        fail("C06.output-accepted", c, f"call #{i}: {c}.check rejects encoder output {cw.to01()}", None)
                    arr[int(pos) % n] ^= 1  # channel error injected in place on the transmitter's buffer
                    res["cov"].add(f"{c}|mixed|generate-inplace")
                    log.add(i, c, op, bits)
                    continue
                if op == "pair":
                    # two words the checker accepts must differ in at least d positions (the replayable form of a min-distance violation: a codeword and
                    # its accepted neighbour)
                    wa, _, wb = bits.partition("/")
                    res["evals"] += 1
                    ops_at[0] = i
                    if wa != wb and cls.check(bitarray(wa)) and cls.check(bitarray(wb)):
                        dist = sum(x != y for x, y in zip(wa, wb))
                        if dist < d:
                            fail("C06.min-distance", c, f"call #{i}: {c}.check accepts {wa} and {wb}, which differ in {dist} < {d} positions", None)
                    log.add(i, c, op, bits)
                    continue
                if bits.startswith("cw:"):
                    parts = bits.split(":")
                    wd = bitarray(cls.generate(bitarray(parts[1])).tolist())
                    if len(parts) > 2 and parts[2]:
                        for p in parts[2].split(","):
                            wd.invert(int(p))
                else:
                    wd = bitarray(bits)
                if little:
                    wd = bitarray(wd.to01(), endian="little")
                    res["cov"].add(f"{c}|mixed|little-endian")
                wi = int(wd.to01(), 2) if len(wd) else 0
                if rbuf:
                    buf = rbufs.setdefault(c, bitarray(n))
                    buf[:] = wd  # in-place overwrite of the same object, reception after reception
                    wd = buf
                    res.fault("receive_buffer_reuse")
                res["evals"] += 1
                ops_at[0] = i
                self._one(res, fail, cls, c, n, k, d, cs, op, wd, wi, None, i, "mixed", nocopy=rbuf)
                log.add(i, c, op, wd.to01())
            res["ops"] = len(case["ops"])
        elif task == "words":
            c = case["code"]
            cls, n, k, d, ham = get_code(c)
            cs = codeset(c)
            a, b = case["range"]
            acc = 0
            order = list(range(a, b))
            import random as _random

            _random.Random(core.derive("C06words", c, a)).shuffle(order)  # complete block, pseudo-random visiting order
            for wi in order:
                wd = int2ba(wi, n)
                got = bool(cls.check(wd))
                res["evals"] += 1
                acc += got
                if got != (wi in cs):
                    fail("C06.accepted-set", c, f"{c}.check({wd.to01()}) = {got}, word is {'a' if wi in cs else 'not a'} codeword", [[c, "check", wd.to01()]])
            res["cov"].add(f"{c}|all-words|{a >> 12}")
            res.fault("received_word_sweep", b - a)
            log.add(0, c, "words", (a, b, acc))
            res["ops"] = b - a
        else:
            c = case["code"]
            cls, n, k, d, ham = get_code(c)
            cs = codeset(c)
            if len(cs) != 1 << k:
                fail("C06.distinct-codewords", c, f"{c}: {len(cs)} distinct encoder outputs for {1 << k} messages", [[c, "check", "0" * n]])
            a, b = case["range"]
            pats = {w: list(itertools.combinations(range(n), w)) for w in range(1, d)}
            import numpy

            held = []  # (message, array returned by generate for an ndarray message): must stay what it was, whatever is encoded later
            for m in range(a, b):
                dt = [int, numpy.uint8, bool, numpy.uint64, numpy.int8, numpy.uint16, numpy.int32, numpy.uint32][m % 8]
                marr = numpy.array([int(x) for x in int2ba(m, k).tolist()], dtype=dt)
                if m % 3 == 0:  # the message as a strided view: a column of a table, the way the BPTC code hands rows/columns around
                    tbl = numpy.zeros((k, 3), dtype=dt)
                    tbl[:, 1] = marr
                    marr = tbl[:, 1]
                try:
                    garr = cls.generate(marr)
                    gl = [int(x) & 1 for x in garr.tolist()]
                    res["evals"] += 1
                    want = [int(x) for x in cls.generate(int2ba(m, k)).tolist()]
                    if gl != want:
                        fail("C06.container", c, f"{c}.generate(ndarray dtype={numpy.dtype(dt).name} of {int2ba(m, k).to01()}) = {gl}, with a bitarray message {want}",
                             [[c, "generate-np", numpy.dtype(dt).name + ":" + int2ba(m, k).to01()]])
                    held.append((m, garr, want))
                except Exception as e:
                    fail("C06.container", c, f"{c}.generate(ndarray dtype={numpy.dtype(dt).name}{' strided' if m % 3 == 0 else ''}) raised {type(e).__name__}: {e}",
                         [[c, "generate-np", ("s" if m % 3 == 0 else "") + numpy.dtype(dt).name + ":" + int2ba(m, k).to01()]])
                if ham:
                    cwl = [int(x) for x in cls.generate(int2ba(m, k)).tolist()]
                    for pos in (m % n, (m * 7 + 3) % n):
                        rxl = list(cwl)
                        rxl[pos] ^= 1
                        for dt2 in (int, numpy.uint8, bool, numpy.uint64):
                            arr = numpy.array(rxl, dtype=dt2)
                            ro = (m + pos) % 5 == 0 and not (m + pos) % 2
                            if ro:
                                arr.flags.writeable = False  # a read-only array (what numpy.frombuffer over received bytes gives)
                            if (m + pos) % 2:  # strided view (column of a table of that dtype)
                                tbl = numpy.zeros((n, 2), dtype=dt2)
                                tbl[:, 0] = arr
                                arr = tbl[:, 0]
                            try:
                                rep = cls.correct_numpy_array(arr)
                            except Exception as e:
                                fail("C06.container", c, f"{c}.correct_numpy_array raised {type(e).__name__}: {e} for a {'strided ' if (m + pos) % 2 else ''}{numpy.dtype(dt2).name} word",
                                     [[c, "correct-np", ("R" if ro else "") + ("s" if (m + pos) % 2 else "") + numpy.dtype(dt2).name + ":" + "".join(map(str, rxl))]])
                                continue
                            res["evals"] += 1
                            if [int(x) & 1 for x in rep.tolist()] != cwl:
                                fail("C06.single-error-repair", c, f"{c}.correct_numpy_array(dtype={numpy.dtype(dt2).name}) of {cwl} with bit {pos} inverted returned "
                                     f"{[int(x) & 1 for x in rep.tolist()]}", [[c, "correct-np", ("R" if ro else "") + ("s" if (m + pos) % 2 else "") + numpy.dtype(dt2).name + ":" + "".join(map(str, rxl))]])
                    res["cov"].add(f"{c}|ndarray-containers")
            for m, garr, want in held:
                if [int(x) & 1 for x in garr.tolist()] != want:
                    fail("C06.result-aliased", c, f"{c}: the array generate() returned for message {int2ba(m, k).to01()} changed after later generate() calls: now "
                         f"{[int(x) & 1 for x in garr.tolist()]}, was {want}", [[c, "generate-np-held", f"{a}:{b}"]])
                    break
            import random as _random

            morder = list(range(a, b))
            _random.Random(core.derive("C06codewords", c, a, case.get("run_seed", 0))).shuffle(morder)  # complete block, seeded visiting order
            for m in morder:
                msg = int2ba(m, k)
                cw = bitarray(cls.generate(msg).tolist())
                res["evals"] += 1
                if len(cw) != n or cw[:k] != msg:
                    fail("C06.systematic", c, f"{c}.generate({msg.to01()}) = {cw.to01()} is not the message followed by {n - k} parity bits", [[c, "generate", msg.to01()]])
                    continue
                if not cls.check(cw.copy()):
                    fail("C06.output-accepted", c, f"{c}.check rejects encoder output {cw.to01()}", [[c, "check", cw.to01()]])
                if ham:
                    ok, rep = cls.check_and_correct(cw.copy())
                    if not ok or rep != cw:
                        fail("C06.clean-correct", c, f"{c}.check_and_correct of a clean codeword returned ({ok}, {rep.to01()})", [[c, "correct", cw.to01()]])
                for w, pl in pats.items():
                    for p in pl:
                        rx = cw.copy()
                        for i in p:
                            rx.invert(i)
                        res["evals"] += 1
                        where = "data" if all(i < k for i in p) else ("parity" if all(i >= k for i in p) else "both")
                        if cls.check(rx):
                            fail("C06.min-distance", c, f"{c}: codeword {cw.to01()} with {w} inverted bits {list(p)} is accepted (distance < {d})", [[c, "pair", cw.to01() + "/" + rx.to01()]])
                        if ham and w == 1:
                            ok, rep = cls.check_and_correct(rx.copy())
                            if not ok or rep != cw:
                                fail("C06.single-error-repair", c, f"{c}: single error at {p[0]} on {cw.to01()} -> ({ok}, {rep.to01()})", [[c, "correct", rx.to01()]])
                            ok, rep = cls.check_and_correct(bitarray(rx.to01(), endian="little"))
                            if not ok or rep.to01() != cw.to01():
                                fail("C06.single-error-repair", c, f"{c}: single error at {p[0]} on {cw.to01()} given as a little-endian bitarray -> ({ok}, {rep.to01()})",
                                     [[c, "correct", "le:" + rx.to01()]])
                        if c == "H16114" and w == 2:
                            ok, rep = cls.check_and_correct(rx.copy())
                            if ok:
                                fail("C06.double-error-reported", c, f"H16114: double error {list(p)} on {cw.to01()} 'repaired' to {rep.to01()} instead of reported uncorrectable", [[c, "correct", rx.to01()]])
                            # the ndarray entry point has no flag: 'uncorrectable' is the received word handed back as it was received
                            dt3 = (int, numpy.uint8, bool, numpy.int64)[(m + p[0] + p[1]) % 4]
                            rxl = [int(x) for x in rx.tolist()]
                            try:
                                back = [int(x) & 1 for x in cls.correct_numpy_array(numpy.array(rxl, dtype=dt3)).tolist()]
                            except Exception as e:
                                back = type(e).__name__
                            if back != rxl:
                                fail("C06.double-error-reported", c + ":ndarray", f"H16114.correct_numpy_array({numpy.dtype(dt3).name}): double error {list(p)} on {cw.to01()} came back as "
                                     f"{back} instead of unchanged", [[c, "correct-np2", numpy.dtype(dt3).name + ":" + rx.to01()]])
                        res["cov"].add(f"{c}|w{w}|{where}")
                    res.fault(f"weight{w}", len(pl))
            log.add(0, c, "codewords", (a, b))
            res["ops"] = b - a
        res["digest"] = log.digest()
        return res

    @staticmethod
    def _one(res, fail, cls, c, n, k, d, cs, op, wd, wi, ops, i, arm, nocopy=False):
        """judge a single call by the codeword-set oracle"""
        from bitarray.util import ba2int

        shown = wd.to01()
        arg = (lambda: wd) if nocopy else wd.copy  # nocopy: the caller's own long-lived object is handed over, not a private copy per call
        iscw = wi in cs
        if op == "generate":
            from bitarray import bitarray as _ba

            cw = _ba(cls.generate(arg()).tolist())
            if len(cw) != n or cw[:k].to01() != shown:
                fail("C06.systematic", c, f"call #{i}: {c}.generate({shown}) = {cw.to01()} is not the message followed by {n - k} parity bits", ops)
            elif not cls.check(cw.copy()):
                fail("C06.output-accepted", c, f"call #{i}: {c}.check rejects encoder output {cw.to01()}", ops)
            return
        if op == "check":
            got = bool(cls.check(arg()))
            if got != iscw:
                fail("C06.accepted-set", c, f"call #{i}: {c}.check({shown}) = {got}, word is {'a' if iscw else 'not a'} codeword", ops)
            res["cov"].add(f"{c}|{arm}|check|{int(iscw)}")
        elif op == "correct":
            ok, rep = cls.check_and_correct(arg())
            near = [x for x in cs if bin(x ^ wi).count("1") == 1] if not iscw else []
            if iscw:
                want = (True, wi)
            elif len(near) == 1 and d == 3:
                want = (True, near[0])
            elif near and d == 4:
                want = (True, near[0])
            else:
                want = None  # beyond single-error distance: property only constrains (16,11,4) doubles
            ri = int(rep.to01(), 2)
            if want is not None and (bool(ok), ri) != want:
                fail("C06.single-error-repair", c, f"call #{i}: {c}.check_and_correct({shown}) = ({ok}, {rep.to01()}), expected repair to {want[1]:0{n}b}", ops)
            if want is None and c == "H16114" and any(bin(x ^ wi).count("1") == 2 for x in cs) and ok:
                fail("C06.double-error-reported", c, f"call #{i}: H16114 double error word {shown} 'repaired' to {rep.to01()}", ops)
            res["cov"].add(f"{c}|{arm}|correct|{int(iscw)}|{int(bool(near))}")


CHECKS = {"C06": C06()}
