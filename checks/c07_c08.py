"""C07 (fault-free arm) and C08 (faulting arm) of the air-interface simulation."""
from collections import Counter

from checks import air
from dsim import core
from dsim.base import Check

NEXT_LABEL = {"A": "B", "B": "C", "C": "D", "D": "E", "E": "F", "F": "A"}
BLOCK_CLASSES = ("hdr", "pre", "csbk", "R12", "R34", "R1")
EXH_ALPHABET = ["vh", "term", "vs", "ve", "hdr1", "hdr2c", "hdrudt", "pre2", "csbk", "R12", "R34", "R1"]
_EXH_CACHE = {}  # verif_seed -> alphabet (hex strings); filled per worker by a pristine child, so that the worker itself never calls the library


def _build_exh_alphabet(verif_seed):
    """the 12 canonical bursts of the exhaustive arms, built with the real encoders from one seed per batch: the same bursts in every run"""
    import random as _random

    air._imports()
    ra = _random.Random(core.derive(verif_seed, "C08exh-alphabet"))
    cc = ra.randrange(16)
    src, dst = ra.getrandbits(24), ra.getrandbits(24)
    vsync = ra.choice(air.VOICE_SYNCS)
    alpha = {
        "vh": (air.lc_burst(ra, air.DataTypes.VoiceLCHeader, cc, src, dst), "D"), "term": (air.lc_burst(ra, air.DataTypes.TerminatorWithLC, cc, src, dst), "D"),
        "vs": (air.voice_burst(ra, sync=vsync), "V"), "ve": (air.voice_burst(ra, cc=cc, lcss=ra.randrange(4)), "V"),
        "hdr1": (air.hdr_burst(ra, cc, fmt="unconf", btf=1, conf=False), "D"), "hdr2c": (air.hdr_burst(ra, cc, fmt="conf", btf=2, conf=True), "D"),
        "hdrudt": (air.hdr_burst(ra, cc, fmt="udt"), "D"), "pre2": (air.csbk_burst(ra, cc, True, btf=2), "D"), "csbk": (air.csbk_burst(ra, cc, False), "D"),
        "R12": (air.rate_burst(ra, cc, k="R12"), "D"), "R34": (air.rate_burst(ra, cc, k="R34"), "D"), "R1": (air.rate_burst(ra, cc, k="R1"), "D"),
    }
    return {t: (b.hex(), bt) for t, (b, bt) in alpha.items()}


def pick_length(r, rate, conf):
    opb, olb = air.TAB[(rate, conf)]
    nmax = 126 * opb + olb
    x = r.random()
    if x < 0.45:
        k = r.choice([0, 0, 1, 1, 2, 3, 5])
        n = k * opb + olb + r.choice([-1, 0, 1])
    elif x < 0.6:
        n = r.choice([0, 1, 2, 3, 4, 5, 6, 7, 8, 9])
    elif x < 0.9:
        n = r.randrange(0, 120)
    elif x < 0.97:
        n = r.randrange(0, 500)
    elif x < 0.99:
        n = r.randrange(0, min(1500, nmax) + 1)
    else:
        n = min(1500, nmax) - r.choice([0, 1, opb])
    return max(0, min(n, nmax, 1500))


# =====================================================================================================================
# C07
# =====================================================================================================================


class C07(Check):
    env_warnings_as_errors = True
    pid = "C07"
    level = "exploration"
    chunk = 8
    run_timeout = 300.0
    has_clock = True
    sim_time_note = "bursts delivered x 30 ms slot time"
    rule = ("seeded sessions of 2-10 transmissions (data from the real TransmissionGenerator; complete voice calls built by the simulator) on the "
            "two timeslots of one or two terminals, slot streams interleaved by the seeded scheduler, no fault; configurations swarm over rate "
            "(1/2,3/4,1) x confirmed x preambles 0..16 x colour code x SAP x payload length 0..1500 (boundary-biased) x payload pattern. "
            "distinct_nontrivial = distinct (rate, confirmed, #blocks bucket, pad bucket, preambles bucket, predecessor kind on the slot, other "
            "slot busy at the end) cells whose generated data transmission was judged by the strict oracle")
    real_components = ["TransmissionGenerator", "Burst (as_bytes/from_bytes)", "TransmissionWatcher/Terminal/Timeslot/Transmission",
                       "BPTC19696, Trellis34, CRC-9/CRC-32/CRC-CCITT, SlotType/Golay, DataHeader, CSBK, RateXXData"]
    stub_components = ["AirChannel (in-process, carries 33-byte bursts)", "secrets seam", "time() seam", "stdout sink", "recording observers",
                       "voice calls are built by the simulator with the real encoders"]
    assumptions = ["the trailing CRC-32 is recomputed over the received data by a hand-written B.3.9 routine (air.ref_crc32, cross-checked against the library by selftest/encoders.py), not by the library's engine",
                   "no fault is injected in this arm; the hostile element is the schedule and the receiver state carried over from earlier transmissions"]

    def preload(self):
        air.preload()
        from checks import c19

        c19.preload_cotenant()

    def budget(self, tier):
        return 150.0 if tier == "quick" else 1500.0

    LEN_CONFIGS = [(r, c) for r in ("R12", "R34", "R1") for c in (False, True)]

    def arms(self, tier):
        # lengths: every payload length 0..1500 (capped where 127 blocks are exceeded) x rate x confirmation, one transmission per run;
        # quick takes every 12th length (offset chosen by the seed), thorough all of them
        nlen = 6 * 1501
        return [("session", 1600 if tier == "quick" else 24000), ("lengths", nlen // 12 if tier == "quick" else nlen)]

    def generate(self, arm, index, streams, tier):
        air._imports()
        w, k, s = streams["work"], streams["knobs"], streams["sched"]
        if arm == "lengths":
            if tier == "quick":
                index = index * 12 + streams.verif_seed % 12
            rate, conf = self.LEN_CONFIGS[index % 6]
            n = index // 6
            opb, olb = air.TAB[(rate, conf)]
            n = min(n, 126 * opb + olb)
            cc = w.randrange(16)
            bursts, meta = air.generated_data_tx(w, rate, conf, n, w.choice([0, 1, 2, 3, 16]), cc,
                                                 w.choice([air.SAPIdentifier.ShortData, air.SAPIdentifier.UDP_IP_compression, air.SAPIdentifier.IP_PacketData]),
                                                 w.choice(["random", "zero", "ff", "counter", "runs", "selfcrc", "tunnel"]), dst=77)
            return {"knobs": {"terminals": [77], "entropy_seed": k.getrandbits(32), "second_observer": False, "parse_ahead": k.random() < 0.3,
                              "inline_observers": k.random() < 0.25},
                    "ops": [{"kind": "data", "term": 77, "ts": w.choice([1, 2]), "bursts": [[b.hex(), bt, tag] for b, bt, tag in bursts], "meta": meta}], "schedule": []}
        terms = [77] if k.random() < 0.6 else [77, 1234]
        ntx = k.choice([1, 2, 3, 4, 5, 6, 8, 10])
        p_voice = k.choice([0.0, 0.2, 0.4])
        hdr_pool = {} if k.random() < 0.4 else None  # the sender keeps ONE header object per format and brings it up to date for each packet
        ops = []
        for _ in range(ntx):
            term = w.choice(terms)
            ts = w.choice([1, 2])
            cc = w.randrange(16)
            if w.random() < p_voice:
                bursts = air.voice_call(w, cc)
                ops.append({"kind": "voice", "term": term, "ts": ts, "bursts": [[b.hex(), bt, tag] for b, bt, tag in bursts], "meta": {}})
            else:
                rate = w.choice(["R12", "R34", "R1"])
                conf = w.random() < 0.5
                n = pick_length(w, rate, conf)
                pre = w.choice([0, 0, 1, 1, 2, 3, 3, 5, 8, 16])
                sap = w.choice([air.SAPIdentifier.ShortData, air.SAPIdentifier.UDP_IP_compression, air.SAPIdentifier.IP_PacketData,
                                w.choice(list(air.SAPIdentifier))])
                fmt = w.choice(["data", "data", "data", "sdd", "resp"])
                if fmt == "sdd":
                    n = min(n, 62 * air.TAB[(rate, conf)][0])  # appended blocks is a 6-bit field
                pair = conf and fmt == "data" and w.random() < 0.15  # a confirmed packet and, later, its retransmission (same addresses, N(S), payload; F = subsequent try)
                try:
                    bursts, meta = air.generated_data_tx(w, rate, conf, n, pre, cc, sap, w.choice(["random", "random", "zero", "ff", "counter", "runs", "runs", "selfcrc", "tunnel"]), dst=term, fmt=fmt,
                                                         retry=None if pair else False, hdr_pool=hdr_pool)
                except Exception as e:  # the transmitter side of the system under test failed for a legal configuration: judged in execute()
                    ops.append({"kind": "data", "term": term, "ts": ts, "bursts": [], "gen_error": f"{type(e).__name__}: {e}"[:300],
                                "meta": {"rate": rate, "conf": conf, "n": n, "preambles": pre, "cc": cc, "sap": sap.name, "fmt": fmt, "nblocks": 0, "poc": -1, "payload": ""}})
                    continue
                ops.append({"kind": "data", "term": term, "ts": ts, "bursts": [[b.hex(), bt, tag] for b, bt, tag in bursts], "meta": meta})
                if pair:
                    try:
                        bursts2, meta2 = air.generated_data_tx(w, rate, conf, n, w.choice([0, pre]), cc, sap, dst=term, fmt=fmt, payload_override=bytes.fromhex(meta["payload"]), retry=True)
                        ops.append({"kind": "data", "term": term, "ts": ts, "bursts": [[b.hex(), bt, tag] for b, bt, tag in bursts2], "meta": meta2})
                    except Exception:
                        pass
        total = sum(len(o["bursts"]) for o in ops)
        mode = s.choice(["tdma", "random", "bursty"])
        if mode == "tdma":
            schedule = []
        elif mode == "random":
            schedule = [s.randrange(4) for _ in range(total)]
        else:
            schedule = []
            while len(schedule) < total:
                schedule += [s.randrange(4)] * s.randrange(1, 12)
        case = {"knobs": {"terminals": terms, "entropy_seed": k.getrandbits(32), "second_observer": False, "parse_ahead": k.random() < 0.3,
                          "inline_observers": k.random() < 0.25}, "ops": ops, "schedule": schedule}
        if k.random() < 0.2:
            from checks import c19

            case["cotenant"] = c19.gen_cotenant(streams["cotenant"])
        return case

    def sample(self, case):
        return {"knobs": case["knobs"], "schedule_len": len(case.get("schedule", [])),
                "transmissions": [dict(kind=o["kind"], term=o["term"], ts=o["ts"], bursts=len(o["bursts"]),
                                       **{kk: o["meta"][kk] for kk in ("rate", "conf", "n", "poc", "nblocks", "preambles", "cc", "sap") if kk in o["meta"]})
                                  for o in case["ops"]][:10]}

    def simplify(self, case):
        if case.get("cotenant"):
            yield {kk: v for kk, v in case.items() if kk != "cotenant"}
        if case.get("schedule"):
            yield dict(case, schedule=[])
        for kk in ("parse_ahead", "inline_observers"):
            if case["knobs"].get(kk):
                yield dict(case, knobs=dict(case["knobs"], **{kk: False}))

    def execute(self, case):
        res = core.RunResult()
        co = case.get("cotenant") or []
        if co:
            from checks import c19

            c19.run_cotenant(co)
            res.fault("cotenant_library_calls", len(co))
        rx = air.Receiver(case["knobs"], res, "C07")
        CRC32 = air.CRC32
        # per (term, ts) stream of transmissions, in op order
        keys = []
        queues = {}
        for i, op in enumerate(case["ops"]):
            if op.get("gen_error"):
                m = op["meta"]
                res.violate("C07.generator-raises", f"{m['rate']}/{'conf' if m['conf'] else 'unconf'}/{m.get('fmt', 'data')}",
                            f"generate_full_data_transmission failed: {op['gen_error']} for n={m['n']} preambles={m['preambles']} sap={m['sap']}", at=i)
                continue
            sk = (op["term"], op["ts"])
            if sk not in queues:
                queues[sk] = []
                keys.append(sk)
            queues[sk].append((i, op))
        keys.sort()
        pos = {sk: [0, 0] for sk in keys}  # [tx index in queue, burst index]
        evbuf = {sk: [] for sk in keys}
        raised_in = {sk: None for sk in keys}
        prev_kind = {sk: "none" for sk in keys}
        sched = list(case.get("schedule", []))
        si = 0
        rr = 0
        nb_total = 0
        ahead = None
        if case["knobs"].get("parse_ahead"):
            # the application parses everything it received first (a list of Burst objects, all alive at the same time) and processes it afterwards
            ahead = {(i, bi): rx.parse(bytes.fromhex(hx), bt) for i, op in enumerate(case["ops"]) if not op.get("gen_error") for bi, (hx, bt, _t) in enumerate(op["bursts"])}
            res.fault("parsed_ahead_of_processing", len(ahead))
        while True:
            live = [sk for sk in keys if pos[sk][0] < len(queues[sk])]
            if not live:
                break
            if si < len(sched):
                sk = live[sched[si] % len(live)]
                si += 1
            else:
                sk = live[rr % len(live)]
                rr += 1
            qi, bi = pos[sk]
            op_i, op = queues[sk][qi]
            hexdata, bt, tag = op["bursts"][bi]
            r = rx.feed(op["term"], op["ts"], bytes.fromhex(hexdata), bt, op_i, parsed=False if ahead is None else ahead[(op_i, bi)])
            nb_total += 1
            if r is None:
                res.violate("C07.parse", op["kind"], f"burst {bi} ({tag}) of transmission {op_i} built by the library does not parse", at=op_i)
                raised_in[sk] = "unparseable"
            else:
                evbuf[sk].extend(r["events"])
                if r["raised"]:
                    raised_in[sk] = r["raised"]
            bi += 1
            if bi == len(op["bursts"]):
                # transmission complete: judge it
                other_busy = any(rx.tracker(t2, s2) is not None and rx.tracker(t2, s2).type.name != "Idle" for (t2, s2) in keys if (t2, s2) != sk)
                if op["kind"] == "data":
                    self._judge(res, rx, op_i, op, evbuf[sk], raised_in[sk], prev_kind[sk], other_busy, CRC32)
                elif raised_in[sk]:
                    res.violate("C07.no-raise", "voice:" + raised_in[sk].split(":")[0], f"processing a complete voice call raised {raised_in[sk]}", at=op_i)
                prev_kind[sk] = op["kind"]
                evbuf[sk] = []
                raised_in[sk] = None
                qi, bi = qi + 1, 0
            pos[sk] = [qi, bi]
            if len(res["viol"]) >= 4:
                break
        # an application that collects what it is handed and looks at it after the whole session (it keeps the list objects, it does not copy them)
        for copy_at_callback, kept, kind in rx.primary.held:
            if len(kept) != len(copy_at_callback) or any(a is not b for a, b in zip(kept, copy_at_callback)):
                res.violate("C07.payload", "handed-over-list-changed-later", f"the blocks list handed over by {kind} held {len(copy_at_callback)} blocks when the notification was "
                            f"delivered and holds {len(kept)} at the end of the session: the library changed it after the callback returned")
                break
        res["ops"] = nb_total
        res["sim_time"] = nb_total * 0.03
        res["digest"] = rx.log.digest()
        return res

    def _judge(self, res, rx, op_i, op, evs, raised, prev, other_busy, CRC32):
        m = op["meta"]
        site = f"{m['rate']}/{'conf' if m['conf'] else 'unconf'}" + ("" if m.get("fmt", "data") == "data" else "/" + m["fmt"])
        res["evals"] += 1
        V = lambda oracle, detail: res.violate(oracle, site, detail + f" [n={m['n']} blocks={m['nblocks']} pre={m['preambles']} poc={m['poc']} sap={m['sap']}]", at=op_i)
        if raised:
            V("C07.no-raise", f"processing the generated transmission raised {raised}")
            return
        kinds = [(e[0], e[2]) for e in evs]
        if kinds != [("started", "DataTransmission"), ("data_ended", "DataTransmission")]:
            V("C07.one-start-one-end", f"events for this transmission: {kinds}")
            return
        hdr, blocks = evs[1][3], evs[1][4]
        rate_blocks = [x for x in blocks if type(x).__name__ in ("Rate12Data", "Rate34Data", "Rate1Data")]
        csbks = [x for x in blocks if type(x).__name__ == "CSBK"]
        payload = bytes.fromhex(m["payload"])
        announces_pad = m.get("fmt", "data") == "data"  # DD_HEAD / response headers carry no pad-octet field: the generator's padding is the reference
        if announces_pad and getattr(hdr, "pad_octet_count", None) != m["poc"]:
            V("C07.pad", f"header handed over announces pad_octet_count={getattr(hdr, 'pad_octet_count', None)}, generator padded {m['poc']}")
        data = b"".join(x.data for x in rate_blocks)
        want = payload + bytes((getattr(hdr, "pad_octet_count", 0) or 0) if announces_pad else m["poc"])
        if data != want:
            V("C07.payload", f"received {len(data)} octets {data.hex()[:80]}.., expected payload+pad {len(want)} octets {want.hex()[:80]}..")
        if len(rate_blocks) != m["nblocks"]:
            V("C07.payload", f"{len(rate_blocks)} data blocks handed over, generator produced {m['nblocks']}")
        if rate_blocks:
            crc_want = int.from_bytes(air.ref_crc32(data).to_bytes(4, "little"), "big")  # hand-computed, not the library's engine
            got = rate_blocks[-1].crc32
            got = int.from_bytes(got, "big") if isinstance(got, (bytes, bytearray)) else got
            if got != crc_want:
                V("C07.crc32", f"last block carries CRC-32 {got:#x}, CRC-32 of the received data is {crc_want:#x}")
        if m["conf"]:
            bad = [i for i, x in enumerate(rate_blocks) if not x.crc9_ok]
            if bad:
                V("C07.crc9", f"confirmed blocks {bad} of {len(rate_blocks)} report crc9_ok=False")
        btf = [x.blocks_to_follow for x in csbks]
        want_btf = list(range(m["nblocks"] + m["preambles"], m["nblocks"], -1))
        if btf != want_btf:
            V("C07.preamble-countdown", f"preamble blocks_to_follow {btf}, expected {want_btf}")
        tr = rx.tracker(op["term"], op["ts"])
        if tr is None or tr.type.name != "Idle":
            V("C07.idle-after", f"tracker is {tr.type.name if tr else None} after the transmission ended")
        nb = m["nblocks"]
        res["cov"].add(f"{m['rate']}|{int(m['conf'])}|b{min(nb, 3) if nb < 4 else ('4+' if nb < 100 else 'max')}|p{0 if m['poc'] == 0 else (1 if m['poc'] < 4 else 2)}"
                       f"|pre{min(m['preambles'], 3)}|{prev}|{int(other_busy)}|{m.get('fmt', 'data')}")
        if nb == 1:
            res.probe("single_block_transmission")
        if nb >= 120:
            res.probe("max_blocks")
        if m["n"] == 0:
            res.probe("payload_length_0")
        if m["poc"] == 0:
            res.probe("pad_0")
        if other_busy:
            res.probe("other_slot_mid_transmission_while_this_one_ends")


# =====================================================================================================================
# C08
# =====================================================================================================================


class C08(Check):
    env_warnings_as_errors = True
    pid = "C08"
    level = "exploration"
    chunk = 10
    run_timeout = 300.0
    hang_is_violation = True
    has_clock = True
    sim_time_note = "bursts delivered x 30 ms slot time"
    rule = ("seeded burst histories on 2 timeslots of 1-2 terminals: complete / truncated / overlapping voice calls (whole A..F superframes) and "
            "data transmissions (real generator and hand-built headers of all 5 formats, right and wrong preamble count-downs, blocks without "
            "header, header without blocks) plus lone bursts of every class; faults drop, dup, reorder, tx_abort, tx_overlap, corrupt_bits "
            "(kept only while parseable), observer_raises, clock_jump; slot streams interleaved by the seeded scheduler. distinct_nontrivial = "
            "distinct (tracker type before, tracker has header, last voice label state, burst class, fault on that burst, event signature) transitions judged")
    real_components = C07.real_components[1:] + ["FullLinkControl, RS(12,9), EmbeddedSignalling/QR", "observer fan-out (WithObservers)"]
    stub_components = C07.stub_components + ["raising observer", "fault injector of the air channel"]
    assumptions = ["bursts that no longer parse after bit corruption are outside the property's domain and count as drops",
                   "the burst during which an 'ended' fires may or may not be among the handed-over blocks (both accepted)",
                   "when a truncated transmission is given up is not constrained: oracles follow observed callbacks",
                   "raising observers raise Exception subclasses and, in a third of the raising runs, BaseException subclasses (SystemExit, GeneratorExit, CancelledError)",
                   "fresh-receiver oracle: what is handed over at an 'ended' must equal what a fresh receiver hands over for the bursts delivered to that slot since the matching 'started'"]

    def preload(self):
        air.preload()
        from checks import c19

        c19.preload_cotenant()

    def worker_prepare(self, verif_seed, arm):
        if arm.startswith("exh") and verif_seed not in _EXH_CACHE:
            from dsim import pristine

            a = pristine.run_in_child(_build_exh_alphabet, verif_seed, 120)
            if isinstance(a, dict):
                _EXH_CACHE[verif_seed] = a

    def arms(self, tier):
        # exhN: EVERY sequence of length N over an alphabet of 12 canonical bursts on one slot (shorter sequences are prefixes of longer ones and are
        # judged burst by burst on the way); the alphabet's contents are seeded per batch
        if tier == "quick":
            return [("exh4", len(EXH_ALPHABET) ** 4), ("clean", 1200), ("faults", 3600)]
        return [("exh4", len(EXH_ALPHABET) ** 4), ("exh5", len(EXH_ALPHABET) ** 5), ("clean", 15000), ("faults", 60000)]

    # ---------------------------------------------------------------- generation

    def generate(self, arm, index, streams, tier):
        air._imports()
        w, k, s, f = streams["work"], streams["knobs"], streams["sched"], streams["fault"]
        if arm.startswith("exh"):
            n = int(arm[3:])
            alpha = _EXH_CACHE.get(streams.verif_seed) or _build_exh_alphabet(streams.verif_seed)
            assert list(alpha) == EXH_ALPHABET
            seq, x = [], index
            for _ in range(n):
                seq.append(EXH_ALPHABET[x % len(EXH_ALPHABET)])
                x //= len(EXH_ALPHABET)
            ops = [{"kind": "burst", "term": 77, "ts": 1, "data": alpha[t][0], "bt": alpha[t][1], "tag": t, "f": []} for t in seq]
            return {"knobs": {"terminals": [77], "entropy_seed": 1 + index % 7, "second_observer": True, "reuse_parsed": False, "inline_observers": False, "twin_lag": 0,
                              "exh": "".join(t + " " for t in seq).strip()}, "ops": ops}
        terms = [77] if k.random() < 0.6 else [77, 1234]
        knobs = {"terminals": terms, "entropy_seed": k.getrandbits(32), "second_observer": True, "reuse_parsed": k.random() < 0.3,
                 "inline_observers": k.random() < 0.25, "twin_lag": k.choice([1, 4, 9]) if k.random() < 0.12 else 0}
        if k.random() < 0.2:
            knobs["direct_terminal"] = True  # bursts are fed to Terminal.process_incoming_burst(burst, timeslot) directly, not through the watcher
        rates = {}
        if arm == "faults":
            if f.random() > 0.1:
                for x in ("drop", "dup", "reorder", "tx_abort", "corrupt_bits", "clock_jump"):
                    if f.random() < 0.5:
                        rates[x] = f.random() * (0.1 if x == "clock_jump" else 0.3)
            if f.random() < 0.5:
                cbs = ["started", "data_ended", "voice_ended"]
                on = [c for c in cbs if f.random() < 0.6] or [f.choice(cbs)]
                knobs["raising_observer"] = {"on": on, "pos": f.randrange(3), "exc": f.choice(["ValueError", "KeyError", "RuntimeError", "AssertionError", "ZeroDivisionError", "ValueError", "SystemExit", "GeneratorExit", "CancelledError"])}
        ntx = k.choice([1, 2, 3, 4, 6, 8])
        scale = k.random() < 0.01
        if scale:
            # scale runs: a watcher that has seen hundreds of terminals, and hundreds of transmissions in one process
            terms = [77] + [1000 + 7 * i for i in range(k.choice([130, 600, 1100]))]
            knobs["terminals"] = terms
            ntx = len(terms) + 150
        long_voice = k.random() < 0.02
        # size-boundary runs: data transmissions as long as the air interface allows (8-bit preamble count, 7-bit blocks-to-follow)
        long_data = k.random() < 0.04
        # counter-boundary runs: the first call on a slot has a total length around the 8-bit sequence wrap, followed by ordinary traffic
        wrap_total = k.choice([254, 255, 256, 256, 257, 258, 511, 512, 513]) if k.random() < 0.04 else None
        if wrap_total:
            ntx = k.choice([2, 3])
        mix = {"voice": k.choice([0, 1, 2]), "voice_noterm": k.choice([0, 1]), "gen_data": k.choice([0, 1, 2]), "hand_data": k.choice([0, 1, 2]),
               "lone": k.choice([0, 1, 2, 3])}
        if sum(mix.values()) == 0:
            mix["lone"] = 1
        if scale:
            mix = {"voice": 1, "voice_noterm": 1, "gen_data": 1, "hand_data": 1, "lone": 8}  # mostly single bursts: many terminals, little air time
        slot_streams = {}
        rx = None
        for txi in range(ntx):
            term, ts = w.choice(terms), w.choice([1, 1, 2])
            if scale and w.random() < 0.3:
                term = w.choice(terms[:5])  # a few busy terminals (the first ones the watcher met) among the many
            cc = w.randrange(16)
            kind = w.choices(list(mix), list(mix.values()))[0]
            if wrap_total:
                term, ts = terms[0], 1
                kind = "wrap" if txi == 0 else w.choice(["voice", "gen_data"])
            if kind == "wrap":
                bursts = air.voice_call_total(w, cc, wrap_total)
            elif kind == "voice":
                bursts = air.voice_call(w, cc, superframes=w.choice([50, 45]) if long_voice else None)
            elif kind == "voice_noterm":
                bursts = air.voice_call(w, cc, terminator=False)
            elif kind == "gen_data":
                rate, conf = w.choice(["R12", "R34", "R1"]), w.random() < 0.5
                n = w.choice([0, 3, 5, 6, 8, 9, 12, 20, 40])
                gpre = w.choice([0, 1, 2, 3])
                if long_data:
                    n = {"R12": 12, "R34": 18, "R1": 24}[rate] - (2 if conf else 0)
                    n = n * w.choice([60, 100, 120, 126]) - 4  # up to the 7-bit blocks-to-follow limit
                    gpre = w.choice([0, 3, 64, 100, 120])
                bursts, _ = air.generated_data_tx(w, rate, conf, n, gpre, cc,
                                                  w.choice([air.SAPIdentifier.ShortData, air.SAPIdentifier.UDP_IP_compression, air.SAPIdentifier.UDP_IP_compression]),
                                                  w.choice(["random", "zero"]), dst=term)
            elif kind == "hand_data":
                btf = w.choice([0, 1, 1, 2, 3, 5])
                nblk = max(0, btf + w.choice([0, 0, 0, -1, 1, 2]))
                bursts = []
                npre = w.choice([0, 0, 1, 2, 3])
                if long_data:
                    btf = w.choice([5, 63, 64, 126, 127])
                    nblk = max(0, btf + w.choice([0, 0, 0, -1, 1, 2]))
                    npre = w.choice([0, 3, 64, 127, 128, 129, 200, 255])
                for j in range(npre):
                    right = min(255, btf + 1 + (npre - 1 - j))
                    bursts.append((air.csbk_burst(w, cc, pre=True, btf=right if w.random() < 0.7 else w.choice([0, 1, 2, 255])), "D", "pre"))
                if w.random() < 0.85:
                    sap = w.choice([None, air.SAPIdentifier.UDP_IP_compression, air.SAPIdentifier.UDP_IP_compression])
                    bursts.append((air.hdr_burst(w, cc, btf=btf, sap=sap), "D", "hdr"))
                    if w.random() < 0.1:
                        bursts.append(bursts[-1])
                rk = w.choice(["R12", "R34", "R1"])
                for j in range(nblk):
                    bursts.append((air.rate_burst(w, cc, k=rk if w.random() < 0.9 else None), "D", "rate"))
            else:
                c = w.choice(["vh", "term", "vs", "ve", "ve", "hdr", "pre", "csbk", "rate", "rate", "other"])
                b = {"vh": lambda: air.lc_burst(w, air.DataTypes.VoiceLCHeader, cc), "term": lambda: air.lc_burst(w, air.DataTypes.TerminatorWithLC, cc),
                     "vs": lambda: air.voice_burst(w, sync=w.choice(air.VOICE_SYNCS)), "ve": lambda: air.voice_burst(w, cc=cc, lcss=w.randrange(4), pi=w.randrange(2)),
                     "hdr": lambda: air.hdr_burst(w, cc), "pre": lambda: air.csbk_burst(w, cc, True), "csbk": lambda: air.csbk_burst(w, cc, False),
                     "rate": lambda: air.rate_burst(w, cc), "other": lambda: air.other_burst(w, cc)}[c]()
                bursts = [(b, "V" if c in ("vs", "ve") else "D", c)]
            # faults inside the transmission
            if rates and f.random() < rates.get("tx_abort", 0) and len(bursts) > 1:
                bursts = bursts[: f.randrange(1, len(bursts))]
                abort = True
            else:
                abort = False
            st = slot_streams.setdefault((term, ts), [])
            for j, (b, bt, tag) in enumerate(bursts):
                fl = ["tx_abort"] if abort and j == len(bursts) - 1 else []
                if rates:
                    if f.random() < rates.get("drop", 0):
                        knobs["dropped"] = knobs.get("dropped", 0) + 1
                        continue
                    if f.random() < rates.get("corrupt_bits", 0):
                        bb = bytearray(b)
                        for _i in range(f.choice([1, 1, 2, 3])):
                            p = f.randrange(264)
                            bb[p // 8] ^= 0x80 >> (p % 8)
                        if rx is None:
                            rx = air.Receiver({"entropy_seed": 1}, core.RunResult(), "gen")
                        if rx.parse(bytes(bb), bt) is not None:
                            b = bytes(bb)
                            fl = fl + ["corrupt_bits"]
                        else:
                            knobs["corrupt_unparseable_dropped"] = knobs.get("corrupt_unparseable_dropped", 0) + 1
                            continue
                op = {"kind": "burst", "term": term, "ts": ts, "data": b.hex(), "bt": bt, "tag": tag, "f": fl}
                if not rates and kind in ("voice", "wrap"):
                    op["call"] = txi  # a voice call transmitted whole in a run without channel faults: the transmitter's view of "a voice transmission"
                st.append(op)
                if rates and f.random() < rates.get("dup", 0):
                    st.append(dict(op, f=fl + ["dup"]))
            if rates and f.random() < rates.get("reorder", 0) and len(st) >= 2:
                i = f.randrange(len(st) - 1)
                j = min(len(st) - 1, i + f.randrange(1, 4))
                st[i], st[j] = st[j], st[i]
                st[i] = dict(st[i], f=st[i]["f"] + ["reorder"])
        # interleave the slot streams (the schedule)
        keys = sorted(slot_streams)
        idx = {sk: 0 for sk in keys}
        ops = []
        burstiness = s.choice([1, 1, 3, 8])
        endall = s.choice([0, 0, 0, 0.02, 0.06])  # the application gives up every open call now and then (TransmissionWatcher.end_all_transmissions)
        while True:
            live = [sk for sk in keys if idx[sk] < len(slot_streams[sk])]
            if not live:
                break
            sk = s.choice(live)
            for _ in range(s.randrange(1, burstiness + 1)):
                if idx[sk] < len(slot_streams[sk]):
                    ops.append(slot_streams[sk][idx[sk]])
                    idx[sk] += 1
                    if rates and f.random() < rates.get("clock_jump", 0):
                        ops.append({"kind": "clock_jump", "dt": f.choice([-86400.0, -1.0, 3600.0, 1e9])})
                    if endall and s.random() < endall:
                        ops.append({"kind": "end_all"})
        if s.random() < 0.4:
            ops.append({"kind": "end_all"})  # shutdown: whatever is still open is ended by the application
        case = {"knobs": knobs, "ops": ops}
        if k.random() < 0.2:
            from checks import c19

            case["cotenant"] = c19.gen_cotenant(streams["cotenant"])
        return case

    def sample(self, case):
        return {"knobs": case["knobs"], "n_ops": len(case["ops"]),
                "ops": [{kk: o[kk] for kk in ("kind", "term", "ts", "tag", "f", "bt", "dt") if kk in o} for o in case["ops"][:14]]}

    def simplify(self, case):
        kn = case["knobs"]
        if case.get("cotenant"):
            yield {kk: v for kk, v in case.items() if kk != "cotenant"}
        if kn.get("raising_observer"):
            yield dict(case, knobs={kk: v for kk, v in kn.items() if kk != "raising_observer"})
        for kk in ("reuse_parsed", "inline_observers", "twin_lag", "direct_terminal"):
            if kn.get(kk):
                yield dict(case, knobs=dict(kn, **{kk: False}))
        if len(kn.get("terminals", [])) > 1:
            ops = [dict(o, term=kn["terminals"][0]) if o["kind"] == "burst" else o for o in case["ops"]]
            yield dict(case, ops=ops, knobs=dict(kn, terminals=kn["terminals"][:1]))
        if any(o["kind"] == "burst" and o["ts"] == 2 for o in case["ops"]):
            yield dict(case, ops=[dict(o, ts=1) if o["kind"] == "burst" else o for o in case["ops"]])

    # ---------------------------------------------------------------- execution

    def execute(self, case):
        res = core.RunResult()
        kn = case["knobs"]
        co = case.get("cotenant") or []
        if co:
            from checks import c19

            c19.run_cotenant(co[: len(co) // 2])
            res.fault("cotenant_library_calls", len(co))
        rx = air.Receiver(kn, res, "C08")
        if kn.get("dropped"):
            res.fault("drop", kn["dropped"])
        if kn.get("corrupt_unparseable_dropped"):
            res.probe("corrupted_burst_unparseable_counts_as_drop", kn["corrupt_unparseable_dropped"])
        if kn.get("raising_observer"):
            res.fault("observer_raises", 0)
        S = {}
        nbursts = 0
        for i, op in enumerate(case["ops"]):
            if co and i == len(case["ops"]) // 2:
                c19.run_cotenant(co[len(co) // 2:])
            if op["kind"] == "clock_jump":
                rx.clock["skew"] += op["dt"]
                res.fault("clock_jump")
                continue
            if op["kind"] == "end_all":
                res.fault("app_ends_all_transmissions")
                if not self._end_all(res, rx, S, i):
                    break
                continue
            r = rx.feed(op["term"], op["ts"], bytes.fromhex(op["data"]), op["bt"], i)
            if r is None:
                res.probe("unparseable_burst_skipped")
                continue
            nbursts += 1
            for x in op.get("f", []):
                res.fault(x)
            st = S.setdefault((op["term"], op["ts"]), {"unmatched": Counter(), "win": [], "hdr": {}, "prev": None, "after_end": True, "chain": None,
                                                       "since_end": 0, "since_start": []})
            st["cur_call"] = op.get("call")
            ok = self._judge(res, rx, st, r, i, "+".join(op.get("f", [])) or "-")
            if ok:
                ok = self._fresh_receiver_oracle(res, st, r, op, i)
            # oracle 7: all non-raising observers saw the same events
            if rx.second is not None:
                a, b = rx.primary.ev, rx.second.ev
                if len(a) != len(b) or any(x[0] != y[0] or x[2:3] != y[2:3] or (len(x) > 3 and (x[3] is not y[3] or x[4] != y[4])) for x, y in zip(a[-4:], b[-4:])):
                    res.violate("C08.7 observers-see-same-events", r["cls"], f"primary observer saw {len(a)} events, second observer {len(b)} (raising observer: {kn.get('raising_observer')})", at=i)
                    ok = False
            if not ok or len(res["viol"]) >= 4:
                break
        for copy_at_callback, kept, kind in rx.primary.held:
            if len(kept) != len(copy_at_callback) or any(a is not b for a, b in zip(kept, copy_at_callback)):
                res.violate("C08.3 handed-over-list-changed-later", kind, f"the blocks list handed over by {kind} ({len(copy_at_callback)} blocks) was changed by the "
                            f"library after the callback returned (now {len(kept)} blocks): an observer that keeps what it was handed sees other transmissions' blocks")
                break
        if rx.raiser is not None and rx.raiser.raised:
            res.fault("observer_raises", rx.raiser.raised)
            if len(rx.raiser.ev) != len(rx.primary.ev) and not res["viol"]:
                res.violate("C08.7 observers-see-same-events", "raiser", f"raising observer was called {len(rx.raiser.ev)} times, primary {len(rx.primary.ev)}")
        res["faults"] = {k2: v for k2, v in res["faults"].items() if v}
        res["ops"] = nbursts
        res["sim_time"] = nbursts * 0.03
        res["digest"] = rx.log.digest()
        return res

    def _end_all(self, res, rx, S, i):
        """the application ends every open transmission (TransmissionWatcher.end_all_transmissions): no burst is involved, the same clauses apply --
        never raises; every 'ended' belongs to a slot with an open 'started' of that kind and hands over that slot's header and blocks; such a slot is
        idle with a fresh stream id afterwards; nothing is started"""
        import sys as _sys

        V = lambda oracle, site, detail: res.violate(oracle, site, detail, at=i)
        n0 = len(rx.primary.ev)
        issued0 = rx.seam.count
        raised = None
        old = _sys.stdout
        _sys.stdout = rx.sink
        try:
            with rx.wd:
                rx.watcher.end_all_transmissions()
        except BaseException as e:
            raised = f"{type(e).__name__}: {e}"
        finally:
            _sys.stdout = old
            rx.sink.seek(0)
            rx.sink.truncate()
        evs = rx.primary.ev[n0:]
        for _st in S.values():
            _st["air"] = None  # the application ended the calls itself: what follows on a slot is not "a call transmitted whole" any more
        rx.log.add(rx.n, "*", "end_all", ([e[0] for e in evs], raised))
        res["evals"] += 1
        if raised:
            V("C08.1 never-raises", "end_all:" + raised.split(":")[0], f"end_all_transmissions raised {raised}")
            return False
        for e in evs:
            if e[0] == "started":
                V("C08.2 ended-without-started", "end_all:started", f"end_all_transmissions delivered a 'started' ({e[2]})")
                continue
            kind, header, blocks = e[2], e[3], e[4]
            got = [rx.handed_key(x) for x in blocks]
            hk = rx.handed_key(header) if header is not None else None
            open_slots = [sk for sk, st in sorted(S.items()) if st["unmatched"][kind] >= 1]
            if not open_slots:
                V("C08.2 ended-without-started", "end_all:" + kind, f"{e[0]} delivered by end_all_transmissions although no slot has an open 'started' of that kind")
                continue
            match = [sk for sk in open_slots if _same(got, S[sk]["win"]) and hk is not None and hk == S[sk]["hdr"].get("H" if kind == "DataTransmission" else "V")]
            if not match:
                V("C08.3 blocks-handed-over", "end_all:" + kind, f"{e[0]} from end_all_transmissions hands over {[g[0] for g in got]} / header {type(header).__name__}: "
                  f"no slot with an open {kind} received exactly that since its start (open slots: {open_slots})")
                continue
            sk = match[0]
            st = S[sk]
            # fresh receiver: the same bursts since the start, then the same shutdown, must hand over the same
            if len(st["since_start"]) <= 400 and st["since_start"]:
                fres = core.RunResult()
                saved = (air_tmod().secrets, air_tsmod().time)
                try:
                    fresh = air.Receiver({"entropy_seed": 7, "second_observer": False}, fres, "fresh")
                    for d, bt in st["since_start"]:
                        fresh.feed(sk[0], sk[1], bytes.fromhex(d), bt, i)
                    m0 = len(fresh.primary.ev)
                    _sys.stdout = rx.sink
                    try:
                        fresh.watcher.end_all_transmissions()
                    finally:
                        _sys.stdout = old
                        rx.sink.seek(0)
                        rx.sink.truncate()
                    fe = [x for x in fresh.primary.ev[m0:] if x[0] != "started"]
                except BaseException as ex:
                    fe = [("raised " + type(ex).__name__,)]
                finally:
                    air_tmod().secrets, air_tsmod().time = saved
                res.probe("fresh_receiver_comparisons")
                if len(fe) != 1 or fe[0][0] != e[0] or [air.Receiver.full_key(x) for x in fe[0][4]] != [air.Receiver.full_key(x) for x in blocks] \
                        or air.Receiver.full_key(fe[0][3]) != air.Receiver.full_key(header):
                    V("C08.3 handed-over-depends-on-earlier-history", "end_all:" + kind, f"{e[0]} from end_all_transmissions differs from what a fresh receiver fed the "
                      f"{len(st['since_start'])} bursts of this slot since the 'started' hands over on the same shutdown ({[x[0] for x in fe]})")
            st["unmatched"][kind] = 0
            st["win"] = []
            st["hdr"] = {}
            st["since_start"] = []
            st["chain"] = None
            st["sync_seen"] = False
            st["seq_relax"] = True
            st["app_ended"] = True  # see rule 5b: the stricter-than-stated "no letter before the first sync" is not applied to the call after an application-side end
            tr = rx.tracker(*sk)
            if tr.type.name != "Idle" or len(tr.blocks) != 0:
                V("C08.4 idle-after-end", "end_all:" + kind, f"after {e[0]} (end_all_transmissions) the tracker of slot {sk} is {tr.type.name} holding {len(tr.blocks)} blocks")
            ordinal = rx.seam.issued.get(bytes(tr.stream_no))
            if ordinal is None or ordinal <= issued0:
                V("C08.4 fresh-stream-id", "end_all:" + kind, f"stream id of slot {sk} after {e[0]} (end_all_transmissions) was handed out before the shutdown")
            res["cov"].add(f"end_all|{kind}|{len(got)}blocks")
        if rx.second is not None and len(rx.primary.ev) != len(rx.second.ev):
            V("C08.7 observers-see-same-events", "end_all", f"primary observer saw {len(rx.primary.ev)} events, second observer {len(rx.second.ev)}")
        return not res["viol"]

    def _fresh_receiver_oracle(self, res, st, r, op, i):
        """history independence of what is handed over: replay the bursts of this slot since the matching 'started' on a fresh receiver"""
        evs = r["events"]
        cur = (op["data"], op["bt"])
        ended = [e for e in evs if e[0] != "started"]
        ok = True
        if ended and len(st["since_start"]) <= 400:
            first_is_start = evs[0][0] == "started"
            seq = [cur] if first_is_start else st["since_start"] + [cur]
            e = ended[0]
            fres = core.RunResult()
            saved = (air_tmod().secrets, air_tsmod().time)
            try:
                fresh = air.Receiver({"entropy_seed": 7, "second_observer": False}, fres, "fresh")
                last = None
                for d, bt in seq:
                    last = fresh.feed(op["term"], op["ts"], bytes.fromhex(d), bt, i)
            finally:
                air_tmod().secrets, air_tsmod().time = saved
            fe = [x for x in (last["events"] if last else []) if x[0] != "started"]
            res.probe("fresh_receiver_comparisons")
            if not fe or fe[0][0] != e[0]:
                res.violate("C08.3 handed-over-depends-on-earlier-history", e[2], f"{e[0]} fired on this burst, but a fresh receiver fed the {len(seq)} bursts of this slot since "
                            f"the matching 'started' gives {[x[0] for x in (last['events'] if last else [])]} on the last burst", at=i)
                ok = False
            else:
                a = [air.Receiver.full_key(x) for x in e[4]]
                b = [air.Receiver.full_key(x) for x in fe[0][4]]
                ha = air.Receiver.full_key(e[3]) if e[3] is not None else None
                hb = air.Receiver.full_key(fe[0][3]) if fe[0][3] is not None else None
                if a != b or ha != hb:
                    diff = next((k for k in range(min(len(a), len(b))) if a[k] != b[k]), None)
                    res.violate("C08.3 handed-over-depends-on-earlier-history", e[2], f"{e[0]}: blocks/header handed over differ from what a fresh receiver hands over for the same "
                                f"{len(seq)} bursts since the 'started' (lengths {len(a)}/{len(b)}, first difference at block {diff}: {a[diff][:3] if diff is not None else ha} vs "
                                f"{b[diff][:3] if diff is not None else hb})", at=i)
                    ok = False
        # bookkeeping: bursts delivered to this slot since (and including) the burst of the latest 'started'
        if any(x[0] == "started" for x in evs):
            st["since_start"] = [cur]
        elif evs and evs[-1][0] != "started":
            st["since_start"] = []
        else:
            st["since_start"].append(cur)
        return ok

    def _judge(self, res, rx, st, r, i, fault):
        cls, key, evs, out, tr, type0 = r["cls"], r["key"], r["events"], r["out"], r["tracker"], r["type0"]
        res["evals"] += 1
        V = lambda oracle, site, detail: res.violate(oracle, site, detail, at=i)
        had_header = bool(st["hdr"])
        chain0 = st["chain"]
        # 1. never raises
        if r["raised"]:
            V("C08.1 never-raises", r["raised"].split(":")[0], f"process_burst raised {r['raised']} on a {cls} burst (tracker was {type0})")
            return False
        cur = key if cls in BLOCK_CLASSES else None
        cur_pending = cur
        last_end = None
        start_after_end = False
        for e in evs:
            if e[0] == "started":
                st["unmatched"][e[2]] += 1
                st["win"] = []
                st["hdr"] = {}
                if last_end is not None:
                    start_after_end = True
            else:
                kind, header, blocks = e[2], e[3], e[4]
                # 2. ended only after a started of the same kind not yet ended
                if st["unmatched"][kind] < 1:
                    V("C08.2 ended-without-started", kind, f"{e[0]} delivered on slot {r['burst'].timeslot} without an open 'started' of that kind "
                      f"(burst {cls}, tracker was {type0}, header handed over: {type(header).__name__})")
                st["unmatched"][kind] = 0
                # 3. hands over exactly the header and the blocks received since that start
                got = [rx.handed_key(x) for x in blocks]
                cands = [st["win"]] + ([st["win"] + [cur]] if cur_pending else [])
                if not any(_same(got, c) for c in cands):
                    V("C08.3 blocks-handed-over", kind, f"{e[0]}: {len(got)} blocks {[g[0] for g in got]} handed over, received since start: "
                      f"{[g[0] for g in st['win']]}{' (+ current ' + cur[0] + ')' if cur else ''}")
                hk = rx.handed_key(header) if header is not None else None
                want_h = st["hdr"].get("H" if kind == "DataTransmission" else "V")
                cur_h = key if (cls == "hdr" and kind == "DataTransmission") or (cls == "vh" and kind == "VoiceTransmission") else None
                if hk is None or (hk != want_h and hk != cur_h):
                    V("C08.3 header-handed-over", kind, f"{e[0]}: header handed over is not the last {kind} header received since the start "
                      f"({type(header).__name__})")
                st["win"] = []
                st["hdr"] = {}
                cur_pending = None
                last_end = e
                start_after_end = False
        ended = last_end is not None
        if not (evs and evs[-1][0] != "started"):
            if cur is not None:
                st["win"].append(cur)
            if cls == "hdr":
                st["hdr"]["H"] = key
            elif cls == "vh":
                st["hdr"]["V"] = key
        # 4. idle + fresh stream id after an end
        if ended:
            if not start_after_end and (tr.type.name != "Idle" or len(tr.blocks) != 0):
                V("C08.4 idle-after-end", last_end[2], f"after {last_end[0]} the tracker is {tr.type.name} holding {len(tr.blocks)} blocks")
            ordinal = rx.seam.issued.get(bytes(tr.stream_no))
            if ordinal is None or ordinal <= last_end[1]:
                V("C08.4 fresh-stream-id", last_end[2], f"stream id {bytes(tr.stream_no).hex()} after {last_end[0]} was handed out before that end "
                  f"(ordinal {ordinal}, tokens issued at the end event {last_end[1]})")
        # 5. voice labels
        label = getattr(getattr(out, "voice_burst", None), "name", "")
        label = label[-1] if label.startswith("VoiceBurst") else "-"
        # 5c. the transmitter's view: inside a voice call that was transmitted whole (LC header ... terminator, no channel fault in the run) every voice
        # burst from the call's first voice-sync burst on carries the next letter -- whatever the tracker thinks the slot is doing (a tracker that gave the
        # call up half-way labels nothing, and no other rule would notice)
        call = st.get("cur_call")
        air_st = st.get("air")
        if call is None or (air_st and air_st["id"] != call):
            st["air"] = air_st = None
        if call is not None:
            if cls == "vh":
                st["air"] = air_st = air_st if air_st else {"id": call, "chain": None}
            elif cls == "term":
                st["air"] = air_st = None
            elif air_st and cls == "vs":
                if label != "A":
                    V("C08.5 voice-labels", "whole-call:sync", f"voice-sync burst of a voice call that is being transmitted whole (header delivered, no fault) labelled {label}, expected A "
                      f"(tracker was {type0})")
                air_st["chain"] = "A"
            elif air_st and cls == "ve" and air_st["chain"]:
                want = NEXT_LABEL[air_st["chain"]]
                if label != want:
                    V("C08.5 voice-labels", "whole-call:" + air_st["chain"] + "->" + want, f"voice burst after {air_st['chain']} inside a voice call that is being transmitted whole labelled "
                      f"{label}, expected {want} (tracker was {type0})")
                air_st["chain"] = want if label == want else None
        if type0 == "VoiceTransmission" and cls == "vs":
            st["sync_seen"] = True
            if label != "A":
                V("C08.5 voice-labels", "sync", f"voice-sync burst inside a voice transmission labelled {label}, expected A")
            st["chain"] = "A"
        elif type0 == "VoiceTransmission" and cls == "ve" and not st.get("sync_seen"):
            # no voice-sync burst yet in this voice transmission: there is nothing the A..F position could be counted from -- in particular
            # not the previous call's position
            # (a Burst OBJECT that was delivered before still carries the label it was given then; the library does not touch the label before
            # the first sync, so for re-delivered objects this stricter-than-stated rule does not apply)
            if label in "ABCDEF" and not r.get("reused") and not st.get("app_ended"):
                V("C08.5 voice-labels", "before-first-sync", f"voice burst labelled {label} although this voice transmission has not had a voice-sync burst yet "
                  f"(labels are counted from each voice-sync burst on)")
            st["chain"] = None
        elif type0 == "VoiceTransmission" and cls == "ve" and st["chain"]:
            want = NEXT_LABEL[st["chain"]]
            if st["chain"] == "F":
                res.probe("label_F_followed_by_another_voice_burst")
            if label != want:
                V("C08.5 voice-labels", st["chain"] + "->" + want, f"voice burst after {st['chain']} labelled {label}, expected {want}")
            st["chain"] = want
        else:
            st["chain"] = None
        if type0 == "VoiceTransmission" and cls != "ve":
            st["app_ended"] = False  # a voice-sync or non-voice burst processed inside a voice transmission re-anchors the library's label position
        if evs:
            st["sync_seen"] = False  # a transmission started or ended during this burst: the next one has not had its sync yet
        # 6. receive sequence numbers
        seq = getattr(out, "sequence_no", None)
        relax = st.pop("seq_relax", False)
        if relax:
            # the slot's transmission was ended by end_all_transmissions, outside any burst: the counter restarts with this burst or the next
            allowed = {0, 1} | ({(st["prev"] + 1) & 255} if st["prev"] is not None else set())
            ended = True
        elif st["prev"] is None or st["after_end"]:
            allowed = {0, 1}
        else:
            allowed = {(st["prev"] + 1) & 255}
            if st["prev"] == 255:
                res.probe("sequence_wrapped_255_to_0")
        if seq not in allowed:
            V("C08.6 sequence-numbers", "after-end" if st["after_end"] and st["prev"] is not None else "count-up",
              f"returned sequence_no {seq}, previous on this slot {st['prev']}, allowed {sorted(allowed)}")
        st["prev"] = seq
        st["after_end"] = ended
        st["since_end"] = 0 if ended else st["since_end"] + 1
        if st["since_end"] >= 256:
            res.probe("256_bursts_on_one_slot_without_an_end")
        sig = "".join({"started": "S", "data_ended": "d", "voice_ended": "v"}[e[0]] for e in evs) or "-"
        res["cov"].add(f"{type0[:5]}|{int(had_header)}|{chain0 or '-'}|{cls}|{fault}|{sig}")
        if sig in ("dS", "vS"):
            res.probe("end_and_start_in_one_burst")
        return not res["viol"]


def air_tmod():
    import okdmr.dmrlib.transmission.transmission as m

    return m


def air_tsmod():
    import okdmr.dmrlib.transmission.timeslot as m

    return m


def _same(got, want):
    if len(got) != len(want):
        return False
    for g, w in zip(got, want):
        if g[0] != w[0]:
            return False
        if g[0] in ("R12", "R34", "R1"):
            if bytes.fromhex(w[1]).find(bytes.fromhex(g[1])) < 0:
                return False
        elif g[1] != w[1]:
            return False
    return True


CHECKS = {"C07": C07(), "C08": C08()}
