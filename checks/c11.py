"""C11 — Reed-Solomon (12,9) under 1..3 channel symbol errors, with an independent GF(2^8) reference.

Transmitter = real ReedSolomon1294.generate(msg, mask); channel replaces chosen octets;
receiver = real ReedSolomon1294.check(word, mask).  Reference: GF(2^8) mod x^8+x^4+x^3+x^2+1 by
shift-and-xor (no tables), syndromes at alpha^1..alpha^3.  Besides complete grids and seeded
samples the injector builds *adversarial* patterns: symbol errors chosen (by solving the linear
system in the reference field) so that one or two of the three syndromes vanish.
"""
import itertools

from dsim import core
from dsim.base import Check

MASKS = {"zero": "000000", "VoiceLCHeader": "969696", "TerminatorWithLC": "999999"}
PAIRS = list(itertools.combinations(range(12), 2))
TRIPLES = list(itertools.combinations(range(12), 3))


def gmul(a, b):
    r = 0
    while b:
        if b & 1:
            r ^= a
        a <<= 1
        if a & 0x100:
            a ^= 0x11D
        b >>= 1
    return r


def gpow(a, n):
    r = 1
    for _ in range(n):
        r = gmul(r, a)
    return r


def ginv(a):
    return gpow(a, 254)


def syndromes(word):
    out = []
    for j in (1, 2, 3):
        a = gpow(2, j)
        s = 0
        for c in word:
            s = gmul(s, a) ^ c
        out.append(s)
    return out


def locator(pos):
    return gpow(2, 11 - pos)


def adversarial(positions, r):
    """error values on the given 2 or 3 positions that zero as many syndromes as possible (len-1 of them)"""
    X = [locator(p) for p in positions]
    out = []
    if len(positions) == 2:
        for j in (1, 2, 3):
            e1 = r.randrange(1, 256)
            e2 = gmul(gmul(e1, gpow(X[0], j)), ginv(gpow(X[1], j)))
            if e2:
                out.append(([e1, e2], f"S{j}=0"))
    else:
        for a, b in ((1, 2), (1, 3), (2, 3)):
            e1 = r.randrange(1, 256)
            A, B, C, D = gpow(X[1], a), gpow(X[2], a), gpow(X[1], b), gpow(X[2], b)
            det = gmul(A, D) ^ gmul(B, C)
            if det == 0:
                continue
            r1, r2 = gmul(e1, gpow(X[0], a)), gmul(e1, gpow(X[0], b))
            di = ginv(det)
            e2 = gmul(gmul(r1, D) ^ gmul(B, r2), di)
            e3 = gmul(gmul(A, r2) ^ gmul(r1, C), di)
            if e2 and e3:
                out.append(([e1, e2, e3], f"S{a}=S{b}=0"))
    return out


class C11(Check):
    pid = "C11"
    library_exception_is_violation = True  # every call made in execute() is one the property covers, with valid arguments
    level = "fault_enumeration"
    chunk = 4
    run_timeout = 600.0
    rule = ("seam: log_multiply vs the shift-and-xor reference for all 65 536 operand pairs; basis: zero, all-0xFF and the 9x255 single-symbol messages x "
            "masks (0, VoiceLCHeader, TerminatorWithLC, seeded random): parity layout, zero reference syndromes after unmasking, accepted under the same "
            "mask, rejected under another, every single-symbol error (12x255) rejected; random: seeded random messages, same oracles plus GF-linearity "
            "of the parity, sampled and adversarial (one/two syndromes zeroed) double and triple symbol errors; double: the complete 255^2 value grid on "
            "every position pair for a seeded codeword. distinct_nontrivial = distinct (message class, mask class, fault weight, data/parity position mix, "
            "adversarial class) cells")
    real_components = ["ReedSolomon1294.generate", "ReedSolomon1294.check", "ReedSolomon1294.log_multiply (+ its tables)"]
    stub_components = ["symbol-error channel", "GF(2^8) shift-and-xor reference + syndrome evaluator", "adversarial pattern solver"]
    assumptions = ["the reference field arithmetic (25 lines) is trusted; field polynomial 0x11D, alpha=2, word[0] = highest degree"]
    exhaustive = {}

    def preload(self):
        import okdmr.dmrlib.etsi.fec.reed_solomon_12_9_4  # noqa

    def budget(self, tier):
        return 200.0 if tier == "quick" else 1500.0

    def arms(self, tier):
        q = tier == "quick"
        return [("seam", 16), ("basis", 9 * 255 + 2), ("pairs", 256), ("random", 400 if q else 6000), ("double", 66 * (1 if q else 12)), ("history", 300 if q else 5000)]

    def generate(self, arm, index, streams, tier):
        w = streams["work"]
        if arm == "seam":
            return {"task": "seam", "stride": [index, 16], "order_seed": streams["sched"].getrandbits(32)}
        if arm == "basis":
            if index < 9 * 255:
                pos, v = divmod(index, 255)
                msg = bytes([0] * pos + [v + 1] + [0] * (8 - pos))
                cls = "single-symbol"
            else:
                msg = bytes(9) if index == 9 * 255 else b"\xff" * 9
                cls = "zero" if index == 9 * 255 else "ones"
            full = tier == "thorough" or index % 6 == streams.verif_seed % 6 or index >= 9 * 255
            return {"task": "basis", "message": msg.hex(), "mclass": cls, "random_mask": "%06x" % w.getrandbits(24), "singles": full}
        if arm == "pairs":
            # every value pair of the two leading message octets (in link control: flags + opcode, feature set id), the other seven seeded
            return {"task": "pairs", "octet0": index, "seed": w.getrandbits(32), "random_mask": "%06x" % w.getrandbits(24)}
        if arm == "random":
            msg = bytes(w.getrandbits(8) for _ in range(9))
            if w.random() < 0.3:  # messages that make the LFSR feedback symbol hit special values are more interesting than uniform ones
                msg = bytes(w.choice([0, 0, 1, msg[i]]) for i in range(9))
            return {"task": "random", "message": msg.hex(), "mclass": "random", "other": bytes(w.getrandbits(8) for _ in range(9)).hex(),
                    "random_mask": "%06x" % w.getrandbits(24), "seed": w.getrandbits(32)}
        if arm == "history":
            # a transmitter/receiver pair sharing the process with a sloppy co-caller: legal generate/check calls (bytes or mutable containers,
            # the SAME mask object re-used), failing calls (wrong types / lengths, which raise), and in-place corruption of what generate returned
            ops = []
            masks = [w.choice(list(MASKS.values()) + ["%06x" % w.getrandbits(24)]) for _ in range(2)]
            for _ in range(w.choice([4, 10, 30])):
                x = w.random()
                msg = bytes(w.choice([0, w.getrandbits(8)]) for _ in range(9)).hex()
                if x < 0.2:
                    ops.append({"op": "bad", "kind": w.choice(["mask_none", "mask_enum", "msg_list", "msg_short", "mask_short", "msg_str"]), "msg": msg})
                elif x < 0.6:
                    ops.append({"op": "gen", "msg": msg, "mask": w.randrange(2), "container": w.choice(["bytes", "bytearray", "bytearray", "memoryview", "kept"]),
                                "maskc": w.choice(["bytearray", "bytearray", "bytes", "list", "tuple", "np.uint8", "np.int64", "np.uint16", "array.H", "array.B"]),
                                "corrupt": [[w.randrange(12), w.randrange(1, 256)] for _ in range(w.choice([0, 1, 2, 3]))]})
                else:
                    ops.append({"op": "chk", "msg": msg, "mask": w.randrange(2), "container": w.choice(["bytes", "bytearray"]),
                                "corrupt": [[w.randrange(12), w.randrange(1, 256)] for _ in range(w.choice([0, 0, 1, 2, 3]))]})
            return {"task": "history", "masks": masks, "ops": ops}
        import random

        cwi, pi = divmod(index, 66)
        r = random.Random(core.derive(streams.verif_seed, "C11double", cwi))
        msg = bytes(r.getrandbits(8) for _ in range(9))
        return {"task": "double", "message": msg.hex(), "mclass": "random", "mask": r.choice(list(MASKS.values())), "pair": list(PAIRS[pi])}

    def sample(self, case):
        return {k: v for k, v in case.items() if k in ("task", "message", "mask", "pair", "range", "ops", "mclass")}

    def simplify(self, case):
        ops = case.get("ops") or []
        if len(ops) == 1 and isinstance(ops[0], dict) and len(ops[0].get("pos", [])) > 1:
            o = ops[0]
            for k in range(len(o["pos"])):
                yield dict(case, ops=[{"pos": o["pos"][:k] + o["pos"][k + 1:], "xor": o["xor"][:k] + o["xor"][k + 1:], "adv": o.get("adv", "-")}])

    def execute(self, case):
        import random

        from okdmr.dmrlib.etsi.fec.reed_solomon_12_9_4 import ReedSolomon1294 as RS

        res = core.RunResult()
        log = core.EventLog()
        task = case.get("task", "ops")
        seen = set()

        def fail(oracle, site, detail, sub):
            if (oracle, site) in seen:
                for v in res["viol"]:
                    if v["oracle"] == oracle and v["site"] == site:
                        v["count"] = v.get("count", 1) + 1
                return
            seen.add((oracle, site))
            res.violate(oracle, site, detail)
            sub = dict(sub)
            sub.update(property="C11", task=sub.get("task", "ops"), arm=case.get("arm"), run=case.get("run"))
            res["viol"][-1]["case"] = sub

        def clean_checks(msg, mask_hex, mclass, mname):
            mask = bytes.fromhex(mask_hex)
            sub = {"message": msg.hex(), "mask": mask_hex, "mclass": mclass, "ops": [{"pos": [], "xor": []}]}
            w = RS.generate(msg, mask)
            res["evals"] += 1
            if len(w) != 12 or w[:9] != msg:
                fail("C11.layout", mclass, f"generate({msg.hex()}, {mask_hex}) = {w.hex()} is not message + 3 parity octets", sub)
                return None
            un = w[:9] + bytes(a ^ b for a, b in zip(w[9:], mask))
            s = syndromes(un)
            if s != [0, 0, 0]:
                fail("C11.codeword", mclass, f"generate({msg.hex()}, {mask_hex}) = {w.hex()}: reference syndromes after unmasking are {s}", sub)
            if not RS.check(w, mask):
                fail("C11.accepts-own-output", mclass, f"check rejects generate({msg.hex()}, {mask_hex}) = {w.hex()}", sub)
            other = bytes([mask[0] ^ 0x0F, mask[1], mask[2] ^ 0x81])
            if RS.check(w, other):
                fail("C11.mask", mclass, f"word {w.hex()} generated under mask {mask_hex} is accepted under mask {other.hex()}", dict(sub, check_mask=other.hex()))
            if mname in ("random", "replay"):  # same octets in mutable containers (legal, unusual): same word, same verdict, caller's buffers untouched
                mb, kb = bytearray(msg), bytearray(mask)
                w2 = RS.generate(mb, kb)
                if bytes(w2) != bytes(w) or bytes(mb) != msg or bytes(kb) != mask:
                    fail("C11.container", mclass, f"generate(bytearray({msg.hex()}), bytearray({mask_hex})) = {bytes(w2).hex()} (buffers after: {bytes(mb).hex()}, {bytes(kb).hex()}), "
                         f"with bytes arguments {w.hex()}", sub)
                wb = bytearray(w)
                if not RS.check(wb, kb) or bytes(wb) != bytes(w):
                    fail("C11.container", mclass, f"check(bytearray({w.hex()}), bytearray({mask_hex})) rejects / alters a word it accepts as bytes", sub)
            res["cov"].add(f"{mclass}|{mname}|w0|-|-")
            return w

        def inject(msg, mask_hex, w, pos, xor, mclass, mname, adv="-"):
            mask = bytes.fromhex(mask_hex)
            c = bytearray(w)
            for p, x in zip(pos, xor):
                c[p] ^= x
            res["evals"] += 1
            acc = RS.check(bytes(c), mask)
            if acc:
                fail("C11.symbol-error-undetected", f"w{len(pos)}" + ("" if adv == "-" else ":adversarial"),
                     f"word {w.hex()} (mask {mask_hex}) with octets {pos} xor {['%02x' % x for x in xor]} -> {bytes(c).hex()} is accepted by check ({adv})",
                     {"message": msg.hex(), "mask": mask_hex, "mclass": mclass, "ops": [{"pos": list(pos), "xor": list(xor), "adv": adv}]})
            mix = "data" if all(p < 9 for p in pos) else ("parity" if all(p >= 9 for p in pos) else "both")
            res["cov"].add(f"{mclass}|{mname}|w{len(pos)}|{mix}|{adv}")
            return acc

        if task == "seam":
            # all 65 536 operand pairs, split into 16 residue classes; each run visits its class in a seeded order (every multiplier and every
            # multiplicand value turns up in every run, in no particular order).  A failing pair is reported with the pairs visited before it
            if "ops" in case:
                pairs = [tuple(x) for x in case["ops"]]
            else:
                import random as _random

                i0, st = case["stride"]
                pairs = [((i0 + st * j) >> 8, (i0 + st * j) & 255) for j in range(65536 // st)]
                _random.Random(case["order_seed"]).shuffle(pairs)
            for pi, (a, b) in enumerate(pairs):
                res["evals"] += 1
                got = RS.log_multiply(a, b)
                if got != gmul(a, b):
                    fail("C11.field-multiplication", "log_multiply", f"log_multiply({a},{b}) = {got}, GF(2^8) product is {gmul(a, b)} (pair #{pi} of this process)",
                         {"task": "seam", "ops": [list(x) for x in pairs[: pi + 1]]})
                if (a * 131 + b) % 4 == 0:  # a quarter of the pairs also as numpy scalars (what indexing a uint8 array yields)
                    import numpy

                    got = int(RS.log_multiply(numpy.uint8(a), numpy.uint8(b)))
                    res["evals"] += 1
                    if got != gmul(a, b):
                        fail("C11.field-multiplication", "log_multiply:numpy.uint8", f"log_multiply(numpy.uint8({a}), numpy.uint8({b})) = {got}, GF(2^8) product is {gmul(a, b)} "
                             f"(pair #{pi} of this process)", {"task": "seam", "ops": [list(x) for x in pairs[: pi + 1]]})
            if "stride" in case:
                res["cov"].add(f"seam|{case['stride'][0]}")
            res["ops"] = len(pairs)
        elif task == "ops":
            if "mul" in case:
                a, b = case["mul"]
                if case.get("np"):
                    import numpy

                    got = int(RS.log_multiply(numpy.uint8(a), numpy.uint8(b)))
                    if got != gmul(a, b):
                        fail("C11.field-multiplication", "log_multiply:numpy.uint8", f"log_multiply(numpy.uint8({a}), numpy.uint8({b})) = {got}, GF(2^8) product is {gmul(a, b)}",
                             {"mul": [a, b], "np": True, "ops": []})
                got = RS.log_multiply(a, b)
                res["evals"] += 1
                if got != gmul(a, b):
                    fail("C11.field-multiplication", "log_multiply", f"log_multiply({a},{b}) = {got}, GF(2^8) product is {gmul(a, b)}", {"mul": [a, b], "ops": []})
            else:
                msg = bytes.fromhex(case["message"])
                mclass = case.get("mclass", "?")
                w = clean_checks(msg, case["mask"], mclass, "replay")
                if case.get("other"):
                    self._linearity(RS, res, fail, msg, bytes.fromhex(case["other"]), mclass)
                if w is not None:
                    for o in case["ops"]:
                        if o["pos"]:
                            inject(msg, case["mask"], w, o["pos"], o["xor"], mclass, "replay", o.get("adv", "-"))
            res["ops"] = len(case.get("ops", []))
        elif task == "basis":
            msg = bytes.fromhex(case["message"])
            mclass = case["mclass"]
            for mname, mh in list(MASKS.items()) + [("random", case["random_mask"])]:
                w = clean_checks(msg, mh, mclass, mname)
                if w is None or not case["singles"] or mname == "TerminatorWithLC":
                    continue
                for p in range(12):
                    for v in range(1, 256):
                        inject(msg, mh, w, [p], [v], mclass, mname)
                res.fault("single_symbol", 12 * 255)
            res["ops"] = 4
        elif task == "pairs":
            r = random.Random(case["seed"])
            o1s = list(range(256)) if "ops" not in case else [o["octet1"] for o in case["ops"]]
            r.shuffle(o1s)
            masks = list(MASKS.items()) + [("random", case["random_mask"])]
            for o1 in o1s:
                rest = bytes(r.choice([0, 1, 0xFF, r.getrandbits(8), r.getrandbits(8)]) for _ in range(7))
                if "ops" in case:
                    rest = bytes.fromhex(next(o["rest"] for o in case["ops"] if o["octet1"] == o1))
                msg = bytes([case["octet0"], o1]) + rest
                mname, mh = masks[(o1 + case["octet0"]) % len(masks)]
                sub_ops = [{"octet1": o1, "rest": rest.hex()}]
                nv = len(res["viol"])
                w = clean_checks(msg, mh, "leading-pair", mname)
                if w is not None:
                    for p in range(12):  # one corrupted octet at each position
                        inject(msg, mh, w, [p], [r.randrange(1, 256)], "leading-pair", mname)
                    res.fault("single_symbol", 12)
                for v in res["viol"][nv:]:
                    v["case"] = {"property": "C11", "task": "pairs", "octet0": case["octet0"], "seed": case["seed"], "random_mask": case["random_mask"], "ops": sub_ops,
                                 "arm": case.get("arm"), "run": case.get("run")}
            res["cov"].add(f"pairs|{case['octet0'] >> 4}")
            res["ops"] = len(o1s)
        elif task == "random":
            msg = bytes.fromhex(case["message"])
            r = random.Random(case["seed"])
            # adversarial CLEAN cases computed with the reference arithmetic: the last three message octets are solved so that the transmitted
            # parity field (after masking) is all-zero, all-ones, or equal to the mask -- sentinel values a checker might treat specially
            for mname0, mh0 in list(MASKS.items())[: 2]:
                for target in (bytes(3), b"\xff" * 3, bytes.fromhex(mh0)):
                    am = self._message_with_parity_field(msg, bytes.fromhex(mh0), target)
                    if am is not None:
                        w0 = clean_checks(am, mh0, "parity-field-sentinel", mname0)
                        if w0 is not None and w0[9:] != target:
                            raise AssertionError("harness: solved message does not give the target parity field")
                        if w0 is not None:
                            for p in range(12):
                                inject(am, mh0, w0, [p], [r.randrange(1, 256)], "parity-field-sentinel", mname0)
                        res.fault("adversarial_clean_message")
            self._linearity(RS, res, fail, msg, bytes.fromhex(case["other"]), "random")
            for mname, mh in list(MASKS.items()) + [("random", case["random_mask"])]:
                w = clean_checks(msg, mh, "random", mname)
                if w is None:
                    continue
                for _ in range(60):
                    k = r.choice([1, 2, 2, 3, 3])
                    pos = sorted(r.sample(range(12), k))
                    inject(msg, mh, w, pos, [r.randrange(1, 256) for _ in pos], "random", mname)
                    res.fault({1: "single_symbol", 2: "double_symbol", 3: "triple_symbol"}[k])
                for pos in r.sample(PAIRS, 12):
                    for xor, adv in adversarial(pos, r):
                        inject(msg, mh, w, list(pos), xor, "random", mname, adv)
                        res.fault("double_symbol_adversarial")
                for pos in r.sample(TRIPLES, 40):
                    for xor, adv in adversarial(pos, r):
                        inject(msg, mh, w, list(pos), xor, "random", mname, adv)
                        res.fault("triple_symbol_adversarial")
            res["ops"] = 1
        elif task == "history":
            self._history(RS, res, case)
        elif task == "double":
            msg = bytes.fromhex(case["message"])
            w = clean_checks(msg, case["mask"], "random", "grid")
            p, q = case["pair"]
            if w is not None:
                mask = bytes.fromhex(case["mask"])
                base = bytearray(w)
                n = 0
                for x in range(1, 256):
                    base[p] = w[p] ^ x
                    for y in range(1, 256):
                        base[q] = w[q] ^ y
                        n += 1
                        if RS.check(bytes(base), mask):
                            inject(msg, case["mask"], w, [p, q], [x, y], "random", "grid")
                res["evals"] += n
                res.fault("double_symbol_grid", n)
                mix = "data" if q < 9 else ("parity" if p >= 9 else "both")
                res["cov"].add(f"random|grid|w2|{mix}|complete:{p},{q}")
            res["ops"] = 1
        log.add(0, task, "done", (res["evals"], len(res["viol"])))
        res["digest"] = log.digest()
        return res

    @staticmethod
    def _message_with_parity_field(msg, mask, target):
        """msg with its last three octets replaced so that the reference encoder's transmitted parity field (parity xor mask) equals target.
        The parity is linear in the message: a 3x3 system over GF(2^8) in the three free octets."""
        base = bytes(msg[:6]) + bytes(3)
        want = bytes(a ^ b for a, b in zip(C11._ref_codeword(base, mask)[9:], target))  # parity contribution still needed from the free octets
        cols = [C11._ref_codeword(bytes(6) + bytes([1 if j == i else 0 for j in range(3)]), bytes(3))[9:] for i in range(3)]
        # solve sum_i x_i * cols[i] = want  (Gaussian elimination over GF(2^8))
        A = [[cols[i][row] for i in range(3)] + [want[row]] for row in range(3)]
        for c in range(3):
            piv = next((rr for rr in range(c, 3) if A[rr][c]), None)
            if piv is None:
                return None
            A[c], A[piv] = A[piv], A[c]
            inv = ginv(A[c][c])
            A[c] = [gmul(x, inv) for x in A[c]]
            for rr in range(3):
                if rr != c and A[rr][c]:
                    f = A[rr][c]
                    A[rr] = [x ^ gmul(f, y) for x, y in zip(A[rr], A[c])]
        return bytes(msg[:6]) + bytes(A[i][3] for i in range(3))

    @staticmethod
    def _ref_codeword(msg, mask):
        """reference encoder: systematic division by g(x) = (x-a)(x-a^2)(x-a^3) in the shift-and-xor field"""
        g = [1]
        for j in (1, 2, 3):
            a = gpow(2, j)
            g = [x ^ gmul(y, a) for x, y in zip(g + [0], [0] + g)]
        rem = list(msg) + [0, 0, 0]
        for i in range(9):
            c = rem[i]
            if c:
                for j in range(1, 4):
                    rem[i + j] ^= gmul(g[j], c)
        return bytes(msg) + bytes(p ^ m for p, m in zip(rem[9:], mask))

    def _history(self, RS, res, case):
        from okdmr.dmrlib.etsi.layer2.elements.crc_masks import CrcMasks

        mask_objs = [bytearray.fromhex(m) for m in case["masks"]]  # the caller keeps its masks in re-used mutable buffers
        kept = bytearray(9)
        mask_vals = [bytes.fromhex(m) for m in case["masks"]]
        for i, op in enumerate(case["ops"]):
            msg = bytes.fromhex(op["msg"])
            if op["op"] == "bad":
                try:
                    k = op["kind"]
                    if k == "mask_none":
                        RS.generate(msg, None)
                    elif k == "mask_enum":
                        RS.generate(msg, CrcMasks.VoiceLCHeader)
                    elif k == "msg_list":
                        RS.generate(list(msg), b"\0\0\0")
                    elif k == "msg_short":
                        RS.generate(msg[:8], b"\0\0\0")
                    elif k == "mask_short":
                        RS.check(msg + b"\0\0\0", b"\0")
                    else:
                        RS.generate(op["msg"], b"\0\0\0")
                except Exception:
                    pass
                res.fault("failing_call")
                continue
            mi = op["mask"]
            mv = mask_vals[mi]
            want = self._ref_codeword(msg, mv)
            res["evals"] += 1
            import array as _array

            import numpy as _np

            if op["container"] == "kept":
                # the caller keeps ONE 9-octet bytearray for its messages and edits it in place from call to call
                kept[:] = msg
                carg = kept
            else:
                carg = {"bytes": bytes, "bytearray": bytearray, "memoryview": lambda b: memoryview(bytes(b))}[op["container"]](msg)
            cont = {"bytes": bytes, "bytearray": bytearray, "memoryview": lambda b: memoryview(bytes(b)), "kept": bytearray}[op["container"]]
            mc = op.get("maskc", "bytearray")
            marg = mask_objs[mi] if mc == "bytearray" else {
                "bytes": lambda: mv, "list": lambda: list(mv), "tuple": lambda: tuple(mv), "np.uint8": lambda: _np.array(list(mv), dtype=_np.uint8),
                "np.int64": lambda: _np.array(list(mv)), "np.uint16": lambda: _np.array(list(mv), dtype=_np.uint16), "array.H": lambda: _array.array("H", list(mv)),
                "array.B": lambda: _array.array("B", list(mv))}[mc]()
            site = op["op"]
            if op["op"] == "gen":
                try:
                    w = RS.generate(carg, marg)
                except Exception as e:
                    if op["container"] == "memoryview":
                        continue  # not every container type is supported; bytes and bytearray are
                    res.violate("C11.history", site, f"call #{i}: generate({op['msg']}, mask {case['masks'][mi]}) as {op['container']} raised {type(e).__name__}: {e}", at=i)
                    return
                if bytes(w) != want:
                    res.violate("C11.history", site, f"call #{i}: generate({op['msg']}, mask {case['masks'][mi]} as {mc}) as {op['container']} = {bytes(w).hex()}, reference codeword {want.hex()}", at=i)
                    return
                if list(marg) != list(mv) or bytes(carg) != msg:
                    res.violate("C11.history", "argument-buffer", f"call #{i}: generate changed one of its argument buffers (mask as {mc}: {list(marg)}, message: {bytes(carg).hex()})", at=i)
                    return
                if bytes(mask_objs[mi]) != mv:
                    res.violate("C11.history", "mask-buffer", f"call #{i}: generate changed the caller's mask buffer {case['masks'][mi]} -> {bytes(mask_objs[mi]).hex()}", at=i)
                    return
                # the channel corrupts what generate returned, in place when that is a mutable buffer
                if op["corrupt"]:
                    rx = w if isinstance(w, bytearray) else bytearray(w)
                    eff = {}
                    for p, x in op["corrupt"]:
                        eff[p] = eff.get(p, 0) ^ x
                    for p, x in eff.items():
                        rx[p] ^= x
                    changed = any(eff.values())
                    acc = RS.check(rx if op["container"] != "bytes" else bytes(rx), mask_objs[mi])
                    if changed and acc:
                        res.violate("C11.history", "corrupted-accepted", f"call #{i}: word {want.hex()} with octets {sorted(eff)} corrupted in place in the returned buffer is accepted", at=i)
                        return
                    res.fault("symbol_error_in_place", 1)
            else:
                rx = bytearray(want)
                eff = {}
                for p, x in op["corrupt"]:
                    eff[p] = eff.get(p, 0) ^ x
                for p, x in eff.items():
                    rx[p] ^= x
                changed = any(eff.values())
                acc = RS.check(cont(rx), mask_objs[mi])
                if acc != (not changed):
                    res.violate("C11.history", "check", f"call #{i}: check({bytes(rx).hex()}, mask {case['masks'][mi]}) = {acc}; the word is {'a' if not changed else 'not a'} codeword "
                                f"({len([1 for v in eff.values() if v])} octets differ)", at=i)
                    return
            res["cov"].add(f"history|{op['op']}|{op['container']}|c{len(op['corrupt'])}")
        res["ops"] = len(case["ops"])

    @staticmethod
    def _linearity(RS, res, fail, a, b, mclass):
        z = b"\0\0\0"
        wa, wb = RS.generate(a, z), RS.generate(b, z)
        x = bytes(p ^ q for p, q in zip(a, b))
        wx = RS.generate(x, z)
        res["evals"] += 1
        if bytes(p ^ q for p, q in zip(wa, wb)) != wx:
            fail("C11.linearity", mclass, f"generate({a.hex()}) xor generate({b.hex()}) != generate({x.hex()})",
                 {"message": a.hex(), "mask": "000000", "mclass": mclass, "other": b.hex(), "ops": [{"pos": [], "xor": []}]})
        res["cov"].add(f"{mclass}|zero|linearity|-|-")


CHECKS = {"C11": C11()}
