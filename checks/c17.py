"""C17 — HSTRP/RRS handler ack discipline under arbitrary datagram histories.

System: real RRSDatagramProtocol / HSTRPDatagramProtocol on the virtual-time loop,
attached to the simulated network through their own connection_made().
Topology A: one handler, scripted peers.  Topology B: two real handlers wired to each
other through the faulty network, optional real periodic_maintenance() task.
"""
import asyncio

from dsim import core
from dsim.base import Check
from dsim.loop import SimLoop
from dsim.net import SimDatagramTransport, SimDateTime
from dsim.pristine import Watchdog

H1 = ("192.168.22.17", 3002)
H2 = ("192.168.22.18", 3002)  # hard-coded destination of periodic_maintenance()
PEERS = [("10.0.0.2", 3002), ("10.0.0.3", 3002), ("10.0.0.4", 40001)]
# IPv6 peers as an AF_INET6 socket reports them: 4-tuples, link-local hosts carry their zone after '%'
PEERS6 = [("fe80::1%eth0", 3002, 0, 2), ("fe80::1%eth1", 3002, 0, 3), ("2001:db8::2", 40001, 0, 0)]
CLASSES = [
    "connect", "connect_opts", "close", "heartbeat", "reg", "offline", "rrs_other",
    "data_other", "ack_connect", "ack_close", "ack_data", "reject",
]
EXTRA_CLASSES = ["data_t0reg", "reg_on_ack", "offline_on_ack"]
WANTS_ANSWER = {"reg", "data_t0reg", "reg_on_ack"}
NEEDS_ACK = {"connect", "connect_opts", "close", "reg", "offline", "rrs_other", "data_other", "data_t0reg"}
HDAP_SAMPLES = [
    "0980a10022000000010a01b2070a03640e4f004c004900560045005200200054004500530054007a03",
    "0980a2000D000000010a01b2070a030000003103",
    "08a0020032000000010a2110dd0000413138333634383236313031354e343731382e383035314530313835342e34333837302e313132310b03",
    "024108050000d20400000e03",
    "02471808000000000000000000cb03",
]
DEFAULT_FATE = {"fate": "deliver", "delay": 0.02, "prio": 100}
HB_MAX_HOPS = 8


# ------------------------------------------------------------------ independent classifier


def classify(d: bytes):
    """fixed-offset header classifier; does not use the library"""
    if len(d) < 6 or d[0:2] != b"2B":
        return None
    t = d[3]
    return {
        "opt": bool(t & 0x20), "rej": bool(t & 0x10), "close": bool(t & 0x08), "conn": bool(t & 0x04),
        "hb": bool(t & 0x02), "ack": bool(t & 0x01), "type": t, "sn": int.from_bytes(d[4:6], "big"),
    }


SIMPLE = {0x04: "connect", 0x08: "close", 0x02: "heartbeat", 0x05: "ack_connect", 0x09: "ack_close", 0x01: "ack_data", 0x10: "reject"}


def simple_class(d: bytes):
    """6-byte datagrams are well-formed members of their class whoever sent them"""
    c = classify(d)
    if c is None or len(d) != 6 or d[2] != 0:
        return None
    return SIMPLE.get(c["type"])


def parse_rrs_answer(d: bytes):
    """fixed-offset parse of the registration answer the handler emits"""
    if len(d) != 6 + 5 + 9 + 2 or d[0:2] != b"2B":
        return None
    if d[6] & 0x7F != 0x11 or d[7:9] != b"\x00\x80" or d[9:11] != b"\x00\x09" or d[-1] != 0x03:
        return None
    return {"type": d[3], "sn": int.from_bytes(d[4:6], "big"), "ip": d[11:15], "result": d[15],
            "renew": int.from_bytes(d[16:20], "big")}


# ------------------------------------------------------------------ stimulus factory (real encoders)


def _opts(rnd):
    """HSTRP option TLV chain, encoded by hand: (command | 0x80 unless last, length, data)"""
    opts = [(3, rnd.getrandbits(32).to_bytes(4, "big"))]  # DeviceID
    if rnd.random() < 0.7:
        opts.append((4, bytes([rnd.randrange(1, 3)])))  # ChannelID
    if rnd.random() < 0.2:
        opts.append((1, b""))  # RTP, zero-length
    if rnd.random() < 0.15:
        opts.insert(rnd.randrange(len(opts) + 1), rnd.choice(opts))  # an exactly repeated option: legal, unusual
    out = b""
    for i, (cmd, data) in enumerate(opts):
        out += bytes([cmd | (0x80 if i < len(opts) - 1 else 0), len(data)]) + data
    return out


def hdap_checksum(checked: bytes) -> int:
    return (((sum(checked) & 0xFF) ^ 0xFF) + 0x33) & 0xFF


def rrs_hdap(opcode: int, radio_id: int, reliable: bool, extra: bytes = b"") -> bytes:
    """| service (0x11, 0x80 = reliable) | opcode (2) | payload length (2) | 10.<id> [| result, renew time (4) | radio state] | checksum | 0x03 |"""
    checked = bytes([0x00, opcode, 0x00, 0x04 + len(extra), 0x0A]) + radio_id.to_bytes(3, "big") + extra
    return bytes([0x11 | (0x80 if reliable else 0)]) + checked + bytes([hdap_checksum(checked), 0x03])


def tmp_hdap(rnd, nchars: int) -> bytes:
    """a Hytera text message (TMP SendPrivateMessage) of `nchars` UTF-16 characters, encoded by hand:
    | 0x09 | 0x80 0xa1 | payload length (2, big endian) | request id (4) | destination 10.x (4) | source 10.x (4) | text UTF-16-LE | checksum | 0x03 |"""
    text = "".join(rnd.choice("ABCDEFGHIJKLMNOPQRSTUVWXYZ 0123456789") for _ in range(nchars)).encode("utf-16-le")
    payload = rnd.getrandbits(32).to_bytes(4, "big") + bytes([0x0A]) + rnd.getrandbits(24).to_bytes(3, "big") + bytes([0x0A]) + rnd.getrandbits(24).to_bytes(3, "big") + text
    checked = bytes([0x80, 0xA1]) + len(payload).to_bytes(2, "big") + payload
    return bytes([0x09]) + checked + bytes([hdap_checksum(checked), 0x03])


def hstrp(type_byte: int, sn: int, options: bytes = b"", payload: bytes = b"", version: int = 0) -> bytes:
    return b"2B" + bytes([version, type_byte]) + sn.to_bytes(2, "big") + options + payload


T_OPT, T_REJ, T_CLOSE, T_CONN, T_HB, T_ACK = 0x20, 0x10, 0x08, 0x04, 0x02, 0x01


def build(cls, rnd, radios):
    """returns (bytes, meta) for a well-formed member of class cls.  Encoded by an INDEPENDENT byte-level encoder (the peer's
    implementation), not by the library: the system under test then runs in a process that imported nothing but the handler module
    (selftest/encoders.py checks this encoder byte for byte against the library's on the unchanged tree)"""
    sn = rnd.choice([0, 1, 0xFFFF, 0xFFFE, rnd.randrange(65536), rnd.randrange(65536)])
    meta = {"sn": sn, "optlen": 0}
    version = 0

    def rrs(op):
        rid = rnd.choice(radios)
        meta["radio"] = rid
        extra = b""
        if op == 0x02 and rnd.random() < 0.5:
            # the other RRS messages of the protocol, as another registrar (or a radio answering a status check) sends them: a registration
            # answer (result, renewal period) / a status-check answer (radio state).  They are data messages like any other: acknowledged once,
            # never answered by an RRS answer, and they say nothing about the radio's registration
            op = rnd.choice([0x80, 0x82])
            extra = (bytes([rnd.choice([0, 1, 2])]) + rnd.choice([1, 300, 0xFFFE, rnd.randrange(1, 0xFFFF)]).to_bytes(4, "big")) if op == 0x80 else bytes([rnd.randrange(2)])
        return rrs_hdap(op, rid, rnd.random() < 0.2, extra)

    def opts():
        o = _opts(rnd)
        meta["optlen"] = len(o)
        return o

    if cls not in ("connect", "close", "heartbeat", "ack_connect", "ack_close") and rnd.random() < 0.15:
        version = rnd.choice([1, 2, 0x7F, 0xFF])  # legal, unusual: the version octet is a field like any other
    if cls == "connect":
        meta["sn"] = 0
        d = hstrp(T_CONN, 0)
    elif cls == "connect_opts":
        d = hstrp(T_CONN | T_OPT, sn, opts(), version=version)
    elif cls == "close":
        meta["sn"] = 0
        d = hstrp(T_CLOSE, 0)
    elif cls == "heartbeat":
        meta["sn"] = 0
        d = hstrp(T_HB, 0)
    elif cls in ("reg", "offline", "rrs_other"):
        d = hstrp(T_OPT, sn, opts(), rrs({"reg": 0x03, "offline": 0x01, "rrs_other": 0x02}[cls]), version)
    elif cls in ("reg_on_ack", "offline_on_ack"):
        # "if type=ack, payload is filled with service messages" (HSTRP doc): a registration / going-offline message riding on an ack
        d = hstrp(T_OPT | T_ACK, sn, opts(), rrs(0x03 if cls == "reg_on_ack" else 0x01), version)
    elif cls == "data_other":
        if rnd.random() < 0.2:
            # a text message of seeded length, up to what one UDP datagram carries (sizes around the usual MTU-derived limits included)
            pl = tmp_hdap(rnd, rnd.choice([0, 1, 17, 100, 256, 700, 716, 717, 718, 719, 720, 728, 729, 730, 735, 1000, 2040, 4096, 16000, 32000]))
        else:
            pl = bytes.fromhex(rnd.choice(HDAP_SAMPLES))
        d = hstrp(T_OPT, sn, opts(), pl, version)
    elif cls == "data_t0reg":
        d = hstrp(0x00, sn, b"", rrs(0x03), version)
    elif cls == "ack_connect":
        meta["sn"] = 0
        d = hstrp(T_CONN | T_ACK, 0)
    elif cls == "ack_close":
        meta["sn"] = 0
        d = hstrp(T_CLOSE | T_ACK, 0)
    elif cls == "ack_data":
        d = hstrp(T_OPT | T_ACK, sn, opts(), version=version) if rnd.random() < 0.5 else hstrp(T_ACK, sn, version=version)
    elif cls == "reject":
        d = hstrp(T_REJ, sn, version=version)
    else:
        raise ValueError(cls)
    return d, meta


# ------------------------------------------------------------------ the check


class C17(Check):
    env_warnings_as_errors = True
    pid = "C17"
    level = "exploration"
    has_clock = True
    hang_is_violation = True
    chunk = 60
    run_timeout = 60.0
    sim_time_note = "virtual seconds of the SimLoop clock summed over runs"
    rule = ("seeded datagram histories (12+1 well-formed classes built with the real encoders, plus truncated / bit-corrupted / "
            "garbage / duplicated / reordered / dropped deliveries, handler restart, clock jumps) against one real handler "
            "(topology A) or two real handlers wired through the faulty network with the real periodic_maintenance task "
            "(topology B); exhaustive class sequences up to the stated length in the exh arms. distinct_nontrivial = distinct "
            "(connected, #online, #offline, sn-near-wrap, delivered class, fault kind on that delivery) transitions on which the "
            "oracle was evaluated, plus distinct class sequences of length <= 3 (prefix 'seq:')")
    real_components = ["RRSDatagramProtocol", "HSTRPDatagramProtocol (incl. periodic_maintenance coroutine)", "HSTRP/HDAP/RRS/TMP/LP/RCP codecs"]
    stub_components = ["SimLoop (virtual-time asyncio loop)", "SimDatagramTransport/network with seeded fates", "scripted peers",
                       "datetime seam of hstrp_datagram_protocol", "independent fixed-offset HSTRP classifier (oracle)"]
    assumptions = [
        "positive rules (must be answered) are applied only to datagrams built well-formed by the simulator and delivered unmodified, or to 6-byte header-only HSTRP datagrams",
        "for corrupted/truncated/garbage datagrams only the negative rules apply and the model re-synchronises to the handler",
        "heartbeats between two connected handlers are retired by the simulated network after 8 hops (keeps runs finite; not a verdict)",
    ]

    def preload(self):
        self.preload_group(0)
        self.preload_group(1)

    def arm_groups(self, tier):
        # group 0 runs in processes that imported nothing but what a minimal application imports (the handler module); group 1 in
        # processes that imported the whole library (and the co-tenant registry) -- import history is a configuration dimension
        return [{"min-imports"}, {a for a, _ in self.arms(tier)} - {"min-imports"}]

    def preload_group(self, i):
        if i == 0:
            import okdmr.dmrlib.protocols.hytera.rrs_datagram_protocol  # noqa
        else:
            from checks import c19

            c19.preload_cotenant()

    def budget(self, tier):
        return 150.0 if tier == "quick" else 3000.0

    def arms(self, tier):
        if tier == "quick":
            return [("min-imports", 1500), ("exh4", 12 + 144 + 1728 + 20736), ("A-clean", 3000), ("A-faults", 9000), ("B-clean", 800), ("B-faults", 2400)]
        return [("min-imports", 20000), ("exh5", 12 + 144 + 1728 + 20736 + 248832), ("A-clean", 40000), ("A-faults", 160000),
                ("B-clean", 10000), ("B-faults", 40000), ("exh6", 2985984)]

    # -------------------------------------------------------------- generation

    def generate(self, arm, index, streams, tier):
        w = streams["work"]
        k = streams["knobs"]
        nrad = k.randrange(1, 4)
        if k.random() < 0.012:
            nrad = k.choice([130, 600, 1500, 2300])  # scale runs: a registry with hundreds / thousands of radios (and, below, a history long enough to fill it)
        radios = [k.randrange(1, 1 << 24) for _ in range(nrad)]
        knobs = {
            "twin_lag": k.choice([1, 3, 7]) if k.random() < 0.12 else 0,
            "handler": "RRS" if k.random() < 0.85 else "HSTRP",
            "initial_sn": k.choice([0, 0, k.randrange(65536), 0xFFFD, 0xFFFE, 0xFFFC]),
            "radios": radios,
        }
        if arm.startswith("exh"):
            return self._gen_exh(arm, index, w, knobs)
        if arm == "min-imports":
            arm = ["A-clean", "A-faults", "A-faults", "B-faults"][index % 4]
        topo = arm[0]
        faults = arm.endswith("faults")
        knobs["topology"] = topo
        f = streams["fault"]
        rates = {}
        if faults and f.random() > 0.1:
            kinds = ["drop", "dup", "reorder", "corrupt", "truncate", "garbage", "clock_jump", "restart", "transport"]
            enabled = [x for x in kinds if f.random() < 0.5]
            for x in enabled:
                rates[x] = f.random() * (0.05 if x in ("restart", "clock_jump", "transport") else 0.3)
        npeers = k.randrange(1, 4)
        peers = PEERS6 if topo == "A" and k.random() < 0.15 else PEERS
        n = k.choice([1, 2, 3, 5, 8, 13, 21, 34, 55, 89, 144, 200]) if topo == "A" else k.choice([3, 8, 20, 40, 80])
        if nrad > 100 and topo == "A":
            n = k.choice([400, 800]) if nrad < 1000 else 2 * nrad
            radios_left = list(radios)  # scale runs walk through the whole population once (every radio registers), then pick at random
        streak = 0
        # class mix per run (swarm)
        classes = CLASSES + EXTRA_CLASSES
        weights = [w.choice([0, 1, 1, 2, 4]) for _ in classes]
        if sum(weights) == 0:
            weights = [1] * len(classes)
        if nrad > 100:
            weights[classes.index("reg")] = 3 * max(weights)  # scale runs are mostly registrations
        ops = []
        t = 0.0
        dsts = ["H1"] if topo == "A" else ["H1", "H2"]
        span = 0.05 if topo == "A" else w.choice([0.05, 0.5, 1.5])
        if topo == "B":
            knobs["maint"] = k.choice(["none", "H1", "H1", "both"])
            knobs["handler"] = "RRS"
        dropped = 0
        sched = streams["sched"]
        for _ in range(n):
            t += w.expovariate(1.0 / span)
            if streak:
                streak -= 1  # a run of the same message class from the same peer (a radio that only heartbeats, a peer that retries)
            else:
                cls = w.choices(classes, weights)[0]
                src = list(peers[w.randrange(npeers)])
                if w.random() < 0.03:
                    streak = w.choice([2, 3, 5, 11, 12, 20, 70])
            if nrad > 100 and topo == "A" and radios_left and cls in ("reg", "reg_on_ack", "data_t0reg"):
                data, meta = build(cls, w, [radios_left.pop()])
            else:
                data, meta = build(cls, w, radios)
            op = {"kind": "deliver", "t": round(t, 6), "prio": sched.randrange(1000), "dst": w.choice(dsts),
                  "src": src, "data": data.hex(), "label": cls, "clean": True,
                  "meta": meta, "f": []}
            if rates:
                if f.random() < rates.get("clock_jump", 0):
                    ops.append({"kind": "clock_jump", "t": round(t, 6), "prio": 0, "dt": f.choice([-3600.0, -1.0, 1.0, 86400.0])})
                if f.random() < rates.get("restart", 0):
                    ops.append({"kind": "restart", "t": round(t, 6), "prio": 0, "dst": op["dst"]})
                if f.random() < rates.get("transport", 0):
                    ops.append({"kind": f.choice(["new_transport", "connection_lost"]), "t": round(t, 6), "prio": 0, "dst": op["dst"]})
                if f.random() < rates.get("drop", 0):
                    dropped += 1
                    continue
                if f.random() < rates.get("garbage", 0):
                    g = bytes(f.randrange(256) for _ in range(f.choice([0, 1, 5, 6, 7, 20, 60])))
                    if f.random() < 0.5:
                        g = b"2B" + g
                    op.update(data=g.hex(), clean=False, label="garbage", f=["garbage"], meta={})
                elif f.random() < rates.get("truncate", 0) and len(data) > 0:
                    cut = f.randrange(len(data))
                    op.update(data=data[:cut].hex(), clean=False, f=["truncate"])
                elif f.random() < rates.get("corrupt", 0):
                    b = bytearray(data)
                    for _i in range(f.choice([1, 1, 2, 3])):
                        j = f.randrange(len(b) * 8)
                        b[j // 8] ^= 0x80 >> (j % 8)
                    op.update(data=bytes(b).hex(), clean=False, f=["corrupt"])
                if f.random() < rates.get("reorder", 0):
                    op["t"] = round(max(0.0, op["t"] + f.uniform(-3 * span, 3 * span)), 6)
                    op["f"] = op["f"] + ["reorder"]
                if f.random() < rates.get("dup", 0):
                    d2 = dict(op, t=round(op["t"] + f.uniform(0, 3 * span), 6), prio=sched.randrange(1000), f=op["f"] + ["dup"])
                    ops.append(d2)
            ops.append(op)
        ops.sort(key=lambda o: (o["t"], o["prio"]))
        case = {"knobs": knobs, "ops": ops, "dropped": dropped}
        if k.random() < 0.08 and "checks.c19" in __import__("sys").modules:  # never in the minimal-import group
            from checks import c19

            case["cotenant"] = c19.gen_cotenant(streams["cotenant"])  # the rest of the application uses (and imports) other parts of the library
        if topo == "B":
            tq = (ops[-1]["t"] if ops else 0.0) + w.choice([0.01, 1.0, 12.0])
            ops.append({"kind": "quiet", "t": round(tq, 6), "prio": 0})
            # quiet tail: one fault-free stimulus of every class to each handler
            tt = tq
            for dst in dsts:
                for cls in classes:
                    tt += 0.3
                    data, meta = build(cls, w, radios)
                    ops.append({"kind": "deliver", "t": round(tt, 6), "prio": 500, "dst": dst, "src": list(PEERS[0]),
                                "data": data.hex(), "label": cls, "clean": True, "meta": meta, "f": []})
            fr = {}
            if rates:
                fr = {x: rates.get(x, 0) for x in ("drop", "dup", "reorder", "corrupt")}
            case["fate_gen"] = {"seed": streams["net"].getrandbits(48), "rates": fr}
        return case

    def _gen_exh(self, arm, index, w, knobs):
        n = len(CLASSES)
        L = 1
        i = index
        while i >= n ** L:
            i -= n ** L
            L += 1
        seq = []
        for _ in range(L):
            seq.append(CLASSES[i % n])
            i //= n
        knobs["topology"] = "A"
        knobs["handler"] = "RRS"
        knobs["radios"] = knobs["radios"][:2]
        ops = []
        t = 0.0
        for cls in seq:
            t += 0.05
            data, meta = build(cls, w, knobs["radios"])
            ops.append({"kind": "deliver", "t": round(t, 6), "prio": 0, "dst": "H1", "src": list(PEERS[0]),
                        "data": data.hex(), "label": cls, "clean": True, "meta": meta, "f": []})
        return {"knobs": knobs, "ops": ops, "dropped": 0}

    def sample(self, case):
        return {"arm": case.get("arm"), "knobs": case["knobs"],
                "ops": [{k: o.get(k) for k in ("kind", "t", "dst", "label", "data", "f") if k in o} for o in case["ops"][:8]],
                "n_ops": len(case["ops"])}

    def resolve(self, case, res):
        if "fate_gen" in case:
            case = dict(case)
            case["fates"] = res.get("_fates", {})
            del case["fate_gen"]
        return case

    def simplify(self, case):
        k = case["knobs"]
        if case.get("cotenant"):
            yield {kk: v for kk, v in case.items() if kk != "cotenant"}
        if k.get("initial_sn"):
            yield dict(case, knobs=dict(k, initial_sn=0))
        if k.get("twin_lag"):
            yield dict(case, knobs=dict(k, twin_lag=0))
        if k.get("maint") not in (None, "none"):
            yield dict(case, knobs=dict(k, maint="none"))
        if case.get("fates"):
            yield dict(case, fates={})
            for key in list(case["fates"]):
                f2 = dict(case["fates"])
                del f2[key]
                yield dict(case, fates=f2)
        for idx, o in enumerate(case["ops"]):
            if o.get("kind") == "deliver" and o["src"] != list(PEERS[0]):
                ops = list(case["ops"])
                ops[idx] = dict(o, src=list(PEERS[0]))
                yield dict(case, ops=ops)

    # -------------------------------------------------------------- execution

    def execute(self, case):
        return _Run(case).run()


class _Run:
    def __init__(self, case):
        self.case = case
        self.res = core.RunResult()
        self.log = core.EventLog()
        self.knobs = case["knobs"]
        self.loop = SimLoop(max_steps=max(6000, 4 * len(case.get("ops", [])) + 3000))  # scale runs deliver thousands of datagrams
        self.handlers = {}
        self.addr = {"H1": H1, "H2": H2}
        self.by_addr = {H1: "H1", H2: "H2"}
        self.model = {}
        self.out = []  # emissions during the current delivery
        self.emitted = 0
        self.fates_out = {}
        self.faults_on = True
        self.quiet_at = None
        self.quiet_inflight = 0
        self.quiet_deliveries = 0
        self.tail_stimuli = 0
        self.inflight = 0  # handler-to-handler deliveries pending (non heartbeat)
        self.cur_hops = 0
        self.tasks = {}
        self.op_index = None
        self.wd = Watchdog(5.0)
        self.last3 = {}
        self.stopped = False
        self.twin = None
        self.twin_q = []

    # --- set-up
    def _mk_handler(self, name):
        from okdmr.dmrlib.protocols.hytera.hstrp_datagram_protocol import HSTRPDatagramProtocol
        from okdmr.dmrlib.protocols.hytera.rrs_datagram_protocol import RRSDatagramProtocol

        cls = RRSDatagramProtocol if self.knobs.get("handler", "RRS") == "RRS" else HSTRPDatagramProtocol
        h = cls(port=3002, be_active_peer=(name == "H1"))
        h.sn = self.knobs.get("initial_sn", 0)
        h.connection_made(SimDatagramTransport(name, self._on_send))
        self.handlers[name] = h
        self.model[name] = {"connected": False, "registry": {}, "sn": h.sn}
        if self.knobs.get("twin_lag") and self.twin is None:
            self.twin = cls(port=3003, be_active_peer=False)
            self.twin.connection_made(SimDatagramTransport(name + "'", lambda *a: None))

    def run(self):
        import okdmr.dmrlib.protocols.hytera.hstrp_datagram_protocol as mod

        res = self.res
        asyncio.set_event_loop(self.loop)
        self.clock = SimDateTime(self.loop.time)
        mod.datetime = self.clock
        names = ["H1"] if self.knobs.get("topology", "A") == "A" else ["H1", "H2"]
        co = self.case.get("cotenant") or []
        if co:
            from checks import c19

            c19.run_cotenant(co[: len(co) // 2])
            res.fault("cotenant_library_calls", len(co))
        for n in names:
            self._mk_handler(n)
        if co:
            mid = self.case["ops"][len(self.case["ops"]) // 2]["t"] if self.case["ops"] else 0.0
            self.loop.call_at(mid, lambda: c19.run_cotenant(co[len(co) // 2:]), prio=0)
        maint = self.knobs.get("maint", "none")
        for n in names:
            if maint == "both" or maint == n:
                self.tasks[n] = self.loop.create_task(self.handlers[n].periodic_maintenance(), name="maint-" + n)
        last_t = 0.0
        has_quiet = False
        for i, op in enumerate(self.case["ops"]):
            last_t = max(last_t, op["t"])
            has_quiet = has_quiet or op["kind"] == "quiet"
            self.loop.call_at(op["t"], self._do_op, i, op, prio=op.get("prio", 0))
        if not has_quiet:
            self.loop.call_at(last_t + 1.0, self._quiet, prio=0)
        res.fault("drop", 0)
        if self.case.get("dropped"):
            res.fault("drop", self.case["dropped"])
        self.loop.run_forever()
        pend = [t for t in self.tasks.values() if not t.done()]
        for t in pend:
            t.cancel()
        if pend:
            self.loop.max_steps = self.loop.steps + 200
            self.stopped = True
            self.loop.run_until_complete(asyncio.gather(*pend, return_exceptions=True))
        self._final_checks()
        res["sim_time"] = self.loop.time()
        res["ops"] = len(self.case["ops"])
        res["digest"] = self.log.digest()
        res["_fates"] = self.fates_out
        res["faults"] = {k: v for k, v in res["faults"].items() if v}
        if self.loop.unhandled:
            ctx = self.loop.unhandled[0]
            res.violate("C17.1 never-raises", "loop", f"unhandled exception in loop callback/task: {ctx.get('message')} {ctx.get('exception')!r}")
        self.loop.close()
        return res

    # --- network
    def _fate(self, ordinal):
        case = self.case
        if "fates" in case:
            return case["fates"].get(str(ordinal), DEFAULT_FATE)
        g = case.get("fate_gen")
        if not g or not g["rates"] or not self.faults_on:
            return DEFAULT_FATE
        import random

        r = random.Random(core.derive(g["seed"], ordinal))
        rates = g["rates"]
        fate = dict(DEFAULT_FATE)
        if r.random() < rates.get("drop", 0):
            fate["fate"] = "drop"
        elif r.random() < rates.get("dup", 0):
            fate["fate"] = "dup"
            fate["delay2"] = round(r.uniform(0.0, 0.2), 6)
        if r.random() < rates.get("reorder", 0):
            fate["delay"] = round(r.uniform(0.001, 0.3), 6)
            fate["prio"] = r.randrange(1000)
            fate["reordered"] = True
        if r.random() < rates.get("corrupt", 0):
            fate["flip"] = [r.randrange(48) for _ in range(r.choice([1, 2]))]
        if fate != DEFAULT_FATE:
            self.fates_out[str(ordinal)] = fate
        return fate

    def _on_send(self, owner, data, addr):
        self.out.append((data, addr))
        self.log.add(self.loop.time(), owner, "send", (data.hex(), list(addr) if addr else None))
        dst = self.by_addr.get(tuple(addr)) if addr else None
        if dst is None or dst not in self.handlers or self.stopped:
            return
        ordinal = self.emitted
        self.emitted += 1
        is_hb = len(data) == 6 and data[3] == 0x02
        hops = self.cur_hops + 1 if is_hb else 0
        if is_hb and hops > HB_MAX_HOPS:
            self.res.probe("heartbeat_retired_by_network")
            return
        fate = self._fate(ordinal)
        if fate["fate"] == "drop":
            self.res.fault("drop")
            return
        if fate.get("flip"):
            b = bytearray(data)
            for j in fate["flip"]:
                if j < len(b) * 8:
                    b[j // 8] ^= 0x80 >> (j % 8)
            data = bytes(b)
            self.res.fault("corrupt")
        if fate.get("reordered"):
            self.res.fault("reorder")
        src = self.addr[owner]
        copies = [fate["delay"]]
        if fate["fate"] == "dup":
            copies.append(fate["delay"] + fate.get("delay2", 0.05))
            self.res.fault("dup")
        for d in copies:
            if not is_hb:
                self.inflight += 1
            self.loop.call_later(d, self._deliver, dst, src, data, None, None, hops, not is_hb, prio=fate.get("prio", 100))

    def _do_op(self, i, op):
        self.op_index = i
        k = op["kind"]
        if k == "deliver":
            for f in op.get("f", []):
                self.res.fault(f)
            if self.quiet_at is not None:
                self.tail_stimuli += 1
            if op["dst"] in self.handlers:
                self._deliver(op["dst"], tuple(op["src"]), bytes.fromhex(op["data"]), op, i, 0, False)
        elif k == "clock_jump":
            self.clock.skew += op["dt"]
            self.res.fault("clock_jump")
            self.log.add(self.loop.time(), "sim", "clock_jump", op["dt"])
        elif k == "restart":
            if op["dst"] in self.handlers:
                old = self.handlers[op["dst"]]
                old.connection_lost(None)
                t = self.tasks.pop(op["dst"], None)
                if t:
                    t.cancel()
                self._mk_handler(op["dst"])
                self.res.fault("restart")
                self.log.add(self.loop.time(), op["dst"], "restart", None)
        elif k == "new_transport":
            # the OS hands the handler a new transport (socket re-created) without telling it that the old one was lost
            if op["dst"] in self.handlers:
                self.handlers[op["dst"]].connection_made(SimDatagramTransport(op["dst"], self._on_send))
                self.res.fault("new_transport")
                self.log.add(self.loop.time(), op["dst"], "new_transport", None)
        elif k == "connection_lost":
            if op["dst"] in self.handlers:
                self.handlers[op["dst"]].connection_lost(None)
                self.model[op["dst"]]["connected"] = False  # documented effect of connection_lost
                self.res.fault("connection_lost")
                self.log.add(self.loop.time(), op["dst"], "connection_lost", None)
        elif k == "quiet":
            self._quiet()

    def _quiet(self):
        if self.quiet_at is not None:
            return
        self.quiet_at = self.loop.time()
        self.faults_on = False
        for t in self.tasks.values():
            t.cancel()
        self.quiet_inflight = self.inflight
        self.log.add(self.loop.time(), "sim", "quiet", self.inflight)

    # --- delivery + oracle
    def _deliver(self, dst, src, data, op, op_i, hops, counted, ):
        res = self.res
        if counted:
            self.inflight -= 1
        h = self.handlers.get(dst)
        if h is None:
            return
        m = self.model[dst]
        c = classify(data)
        is_hb = c is not None and c["type"] == 0x02
        if self.quiet_at is not None and not is_hb and op is None:
            self.quiet_deliveries += 1
            bound = 4 * (self.quiet_inflight + self.tail_stimuli) + 4
            if self.quiet_deliveries > bound and not self.stopped:
                self.stopped = True
                res.violate("C17.9 quiescence", "topology-B", f"{self.quiet_deliveries} handler-to-handler non-heartbeat deliveries after faults stopped "
                            f"(in flight at that moment {self.quiet_inflight}, tail stimuli {self.tail_stimuli}, bound {bound}); last: {data.hex()} to {dst}", at=self.op_index)
                return
        label = op["label"] if (op is not None and op.get("clean")) else None
        meta = op.get("meta", {}) if label else {}
        if label is None:
            s = simple_class(data)
            if s is not None:
                label, meta = s, {"sn": c["sn"], "optlen": 0}
        fault = "+".join(op.get("f", [])) if op is not None else ("h2h" if op is None else "")
        site = label or ("corrupt:" + (op["label"] if op is not None else "emitted"))
        reg_before = dict(getattr(h, "registry", {}))
        conn_before = h.hstrp_connected
        self.out = []
        self.cur_hops = hops
        self.log.add(self.loop.time(), dst, "deliver", (data.hex(), list(src)))
        res["evals"] += 1
        if self.twin is not None:
            # a second handler object of the same class in this process (another port of the same gateway; its output goes nowhere) hears
            # the same datagrams a few deliveries late, so its connection state, counters and registry differ from this one's most of the time
            self.twin_q.append((data, src))
            if len(self.twin_q) > self.knobs["twin_lag"]:
                td, ts = self.twin_q.pop(0)
                try:
                    self.twin.datagram_received(td, ts)
                except Exception:
                    pass
                res.fault("twin_handler_delivery")
        try:
            with self.wd:
                h.datagram_received(data, src)
        except Watchdog.Timeout:
            res.violate("C17.1 never-raises", site, f"datagram_received did not return within 5s CPU for {data.hex()}", at=op_i)
            return
        except Exception as e:
            tb = e.__traceback__
            while tb.tb_next is not None:
                tb = tb.tb_next
            where = f"{type(e).__name__}@{tb.tb_frame.f_code.co_name}"
            res.violate("C17.1 never-raises", where, f"datagram_received raised {type(e).__name__}: {e} for {data.hex()} ({site})", at=op_i,
                        sig={"exc": type(e).__name__})
            self._resync(dst)
            return
        finally:
            self.cur_hops = 0
        out = self.out
        self.out = []
        at = op_i if op_i is not None else self.op_index
        # generic bounds (all datagrams)
        if len(out) > 2:
            res.violate("C17.0 at-most-ack-plus-answer", site, f"{len(out)} datagrams sent for one received {data.hex()}", at=at)
        for o, a in out:
            if tuple(a) != tuple(src):
                res.violate("C17.0 answers-go-to-source", site, f"sent {o.hex()} to {a}, source was {src}", at=at)
        # rule 3: acknowledgements are never answered: any HSTRP-headed datagram with the ack bit set and the heartbeat bit clear,
        # also when (through corruption) the reject bit is set as well -- a handler that answered those could still be made to ping-pong
        if c is not None and c["ack"] and not c["hb"]:
            res.probe("ack_delivered_to_handler")
            # well-formed acks (no payload) must cause no datagram at all; a *corrupted* datagram that happens to carry the
            # ack bit together with an RRS request payload may still get the RRS-level answer to that request (that is not
            # an answer to the acknowledgement), but never an HSTRP-level answer (ack / heartbeat)
            bad = out if (label is not None and label not in WANTS_ANSWER) else [(o, a) for o, a in out if parse_rrs_answer(o) is None]
            if bad:
                res.violate("C17.3 ack-answered", label or "ack-bit-set", f"received {data.hex()} (ack bit set) and sent {[o.hex() for o, _ in bad]}", at=at)
        # rule 4: heartbeat
        if c is not None and c["type"] == 0x02:
            hb_out = out
            if len(data) > 6:
                # not a well-formed heartbeat (carries a payload, only arises from corruption): the RRS-level answer to a
                # request found in that payload is not a heartbeat echo and is not judged here
                hb_out = [(o, a) for o, a in out if parse_rrs_answer(o) is None]
            if not conn_before:
                res.probe("heartbeat_while_disconnected")
                if hb_out:
                    res.violate("C17.4 heartbeat-echo", "disconnected", f"heartbeat answered while not connected: {[o.hex() for o, _ in out]}", at=at)
            else:
                out_all, out = out, hb_out
                if len(out) > 1 or (out and not (len(out[0][0]) == 6 and out[0][0][0:2] == b"2B" and out[0][0][3] == 0x02 and out[0][0][4:6] == b"\x00\x00")):
                    res.violate("C17.4 heartbeat-echo", "connected", f"heartbeat answered with {[o.hex() for o, _ in out]}", at=at)
                if out:
                    res.probe("heartbeat_echoed")
                out = out_all
        # rule 2/6: positive rules for well-formed, unmodified members of a class
        is_rrs = hasattr(h, "registry")
        if label in NEEDS_ACK or label in WANTS_ANSWER:
            optlen = meta.get("optlen", 0)
            acks = [o for o, _ in out if (classify(o) or {}).get("ack")]
            others = [o for o, _ in out if not (classify(o) or {}).get("ack")]
            if label not in NEEDS_ACK:
                pass  # an acknowledgement carrying a request: rule 3 already forbids any HSTRP-level answer
            elif len(acks) != 1:
                res.violate("C17.2 exactly-one-ack", label, f"{len(acks)} acks for {data.hex()}: {[o.hex() for o, _ in out]}", at=at)
            else:
                a = acks[0]
                ca = classify(a)
                if ca["rej"] or ca["sn"] != c["sn"] or len(a) != 6 + optlen or a[6:] != data[6:6 + optlen]:
                    res.violate("C17.2 ack-shape", label, f"ack {a.hex()} for {data.hex()} (want ack bit, no reject, same S/N, length {6 + optlen})", at=at)
            want_answer = is_rrs and label in WANTS_ANSWER
            if want_answer:
                if len(others) != 1:
                    res.violate("C17.6 registration-answer", label, f"{len(others)} answers for {data.hex()}: {[o.hex() for o in others]}", at=at)
                else:
                    pa = parse_rrs_answer(others[0])
                    rid = meta.get("radio")
                    if pa is None or pa["result"] != 0 or pa["ip"] != bytes([0x0A]) + rid.to_bytes(3, "big") or pa["type"] & 0x1F:
                        res.violate("C17.6 registration-answer", label, f"answer {others[0].hex()} is not a success RegistrationAnswer for radio {rid}", at=at)
                    else:
                        if pa["sn"] < m["sn"]:
                            res.probe("sn_wrapped")
                        m["sn"] = pa["sn"]
            elif others:
                res.violate("C17.2 nothing-but-ack", label, f"unexpected extra datagram {[o.hex() for o in others]} for {data.hex()}", at=at)
        elif label == "reject":
            pass
        # rule 5: connected flag
        if label in ("connect", "connect_opts"):
            m["connected"] = True
        elif label == "close":
            m["connected"] = False
        elif label is None and c is not None and (c["conn"] or c["close"]):
            m["connected"] = h.hstrp_connected  # arguable: re-synchronise
        elif label in ("ack_connect", "ack_close"):
            m["connected"] = h.hstrp_connected  # ack of our own connect/close: either value accepted
        if h.hstrp_connected != m["connected"]:
            res.violate("C17.5 connected-flag", site, f"hstrp_connected={h.hstrp_connected}, model says {m['connected']} after {data.hex()}", at=at)
            m["connected"] = h.hstrp_connected
        # rule 7: registry
        if is_rrs:
            reg_now = {k: v.name for k, v in h.registry.items()}
            if label in ("reg", "data_t0reg", "offline", "reg_on_ack", "offline_on_ack"):
                ip = "10.%d.%d.%d" % tuple(meta["radio"].to_bytes(3, "big"))
                new = "Offline" if label.startswith("offline") else "Online"
                if m["registry"].get(ip) == new:
                    res.probe("duplicate_registration_or_offline")
                elif m["registry"].get(ip) == "Offline" and new == "Online":
                    res.probe("offline_then_online")
                m["registry"][ip] = new
            elif label is None:
                before_names = {kk: vv.name for kk, vv in reg_before.items()}
                changed = {k for k in reg_now if reg_now[k] != before_names.get(k)}
                if len(changed) > 1 or len(reg_now) < len(reg_before):
                    res.violate("C17.7 registry", site, f"one datagram changed {len(changed)} registry entries / removed entries", at=at)
                m["registry"] = dict(reg_now)
            if reg_now != m["registry"]:
                dk = sorted(k for k in set(reg_now) | set(m["registry"]) if reg_now.get(k) != m["registry"].get(k))
                res.violate("C17.7 registry", site, f"registry differs from the model in {len(dk)} of {len(m['registry'])} radios after {data.hex()}: "
                            f"{[(k, reg_now.get(k), m['registry'].get(k)) for k in dk[:4]]} (radio, real, model)", at=at)
                m["registry"] = dict(reg_now)
        # coverage
        on = sum(1 for v in m["registry"].values() if v == "Online")
        off = len(m["registry"]) - on
        wrap = h.sn >= 0xFFFC or h.sn < 2
        cls_name = label or "malformed"
        res["cov"].add(f"{int(conn_before)}|{min(on, 2)}|{min(off, 2)}|{int(wrap)}|{cls_name}|{fault or '-'}")
        l3 = self.last3.setdefault(dst, [])
        l3.append(cls_name)
        del l3[:-3]
        for n in (1, 2, 3):
            if len(l3) >= n:
                res["cov"].add("seq:" + ">".join(l3[-n:]))

    def _resync(self, dst):
        h = self.handlers[dst]
        m = self.model[dst]
        m["connected"] = h.hstrp_connected
        if hasattr(h, "registry"):
            m["registry"] = {k: v.name for k, v in h.registry.items()}

    def _final_checks(self):
        res = self.res
        if self.loop.exhausted and not self.stopped:
            res.violate("C17.9 quiescence", "step-cap", f"simulation did not drain within {self.loop.max_steps} loop steps (pending {self.loop.pending()}, "
                        f"non-heartbeat in flight {self.inflight}, deliveries after quiet {self.quiet_deliveries})", at=self.op_index)
        elif self.inflight > 0 and not self.stopped:
            res.violate("C17.9 quiescence", "in-flight-at-end", f"{self.inflight} non-heartbeat datagrams still in flight when the loop stopped")
        if self.quiet_at is not None and len(self.handlers) == 2:
            res.probe("quiet_tail_deliveries", self.quiet_deliveries)


CHECKS = {"C17": C17()}
