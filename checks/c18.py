"""C18 — repeater handshake handlers (P2P + RDAC) under multi-peer datagram histories.

Real P2PDatagramProtocol and RDACDatagramProtocol sharing one real RepeaterStorage,
each attached to the simulated network through connection_made(); Repeater.read_snmp_values
(network I/O) replaced by a stub that returns, patches or (injected fault) raises.
The resolved case is the delivered, post-fault datagram sequence; the oracle is driven by
the delivered bytes and a small protocol model, never by the generator's intentions.
"""
from dsim import core
from dsim.base import Check
from dsim.net import SimDatagramTransport

PING = bytes([0x0A, 0x00, 0x00, 0x00, 0x14])
ACK = bytes([0x0C, 0x00, 0x00, 0x00, 0x14])
EXP = {1: "7e0400fd", 2: "7e040010", 3: "7e040000", 4: "7e040000", 5: "7e040010", 6: "7e040000", 7: "7e040010",
       8: "7e040010", 10: "7e040000", 11: "7e040010", 12: "7e040000", 13: "7e0400fa"}
EXP = {k: bytes.fromhex(v) for k, v in EXP.items()}
NEXT = {0: 1, 1: 2, 2: 3, 3: 4, 4: 5, 5: 6, 6: 7, 7: 8, 8: 10, 10: 11, 11: 12, 12: 13, 13: 14}
STEP0_REQUEST = bytes([0x7E, 0x04, 0x00, 0xFE, 0x20, 0x10, 0x00, 0x00, 0x00, 0x0C, 0x60, 0xE1])
P2P_PORT, RDAC_PORT = 50000, 50002
IPS = ["10.1.1.1", "10.1.1.2", "10.1.1.3"]
IPS6 = ["2001:db8:0:a::1", "2001:db8:0:b::1", "::ffff:10.1.1.1"]  # two hosts with the same last group; an IPv4-mapped twin of IPS[0]
IPS6LL = ["fe80::1%eth0", "fe80::1%eth1", "fe80::2%3"]  # link-local hosts as the socket layer reports them (zone after '%'); same host on two links


def utf16_field(text, n):
    b = text.encode("utf_16_le")[:n]
    return b + bytes(n - len(b))


BODY_STYLE = "random"  # set per run by generate(): how the octets the protocol leaves to the repeater are filled


def _body(r, n, style):
    """`n` octets of a repeater's answer.  random: uniform; atoms: half of the octets are 00 / 01 / 02 / ff; sparse: mostly 00 with a few
    small values (what configuration dumps of real devices look like: multi-octet fields that are zero, small enumerations)"""
    if style == "atoms":
        return bytearray(r.choice([0, 0, 0, 1, 2, 0xFF]) if r.random() < 0.5 else r.getrandbits(8) for _ in range(n))
    if style == "sparse":
        return bytearray(r.choice([0, 0, 0, 0, 0, 0, 0, 1, 1, 2]) if r.random() < 0.85 else r.getrandbits(8) for _ in range(n))
    return bytearray(r.getrandbits(8) for _ in range(n))


def rdac_response(step, r, wellformed=True, template=None):
    """a response a repeater would send at `step` (prefix + body long enough for every stepN handler).  With a template, all peers of the
    run answer with the SAME body (same model, cloned configuration: same reported DMR id, callsign, frequencies)"""
    if template is not None:
        r = __import__("random").Random(template * 31 + step)
    body = _body(r, r.choice([236, 256, 300]), BODY_STYLE)
    if wellformed:
        # identity fields read by step6 must be valid UTF-16 (offsets relative to whole datagram)
        d = bytearray(EXP[step]) + body
        d[56:88] = utf16_field("A8.05.07.001", 32)
        d[88:108] = utf16_field(r.choice(["OK1DMR", "OM0ABC", ""]), 20)
        d[120:184] = utf16_field("RD985", 64)
        d[184:216] = utf16_field("SN%06d" % r.randrange(10 ** 6), 32)
        return bytes(d)
    return bytes(EXP[step]) + bytes(body)


def p2p_cmd(typ, r, rid=None, n=None):
    n = n or r.randrange(21, 44)
    d = bytearray(r.getrandbits(8) for _ in range(n))
    d[0:3] = b"P2P"
    # offset 4 carries the id / packet-kind octet; the values the handler itself compares against (0x0A ping, 0x0B redirect, 0x0C ack)
    # and the counter boundaries are as likely as anything else
    d[4] = r.choice([0x0A, 0x0B, 0x0C, 0x00, 0x01, 0x50, 0xFE, r.randrange(0, 255), r.randrange(0, 255)]) if rid is None else rid
    if r.random() < 0.7:
        d[5:9] = b"\x00\x00\x00\x14"  # constant in real traffic (part of the ping / ack prefixes)
    d[20] = typ
    return bytes(d)


def p2p_ping(r, n=None):
    n = 15 + r.randrange(0, 12) if n is None else n
    d = bytearray(r.getrandbits(8) for _ in range(max(n, 9)))
    d[0:3] = b"\x00\x00\x00"
    d[4:9] = PING
    return bytes(d[:max(n, 9)])


def classify_in(d):
    iscmd = d[:3] == b"P2P"
    typ = d[20] if len(d) > 20 else 0
    if iscmd:
        return {0x10: "registration", 0x11: "dmr_startup", 0x12: "rdac_startup"}.get(typ, "ack" if d[4:9] == ACK else "unknown_cmd")
    if d[4:9] == PING:
        return "ping"
    if d[4:9] == ACK:
        return "ack"
    return "garbage"


def classify_out(d):
    if d == b"\x00":
        return "reject"
    if d[:3] == b"P2P" and len(d) > 20:
        if d[20] == 0x10:
            return "regresp"
        if d[20] in (0x11, 0x12):
            if d[4] == 0x0B and d[12] == 0xFF and d[13] == 0xFF:
                return "redirect"
            return "acceptance"
    if d[4:9] == PING:
        return "pinganswer"
    return "other"


class C18(Check):
    env_warnings_as_errors = True
    pid = "C18"
    level = "exploration"
    chunk = 60
    run_timeout = 60.0
    has_clock = False
    sim_time_note = "no timers in these handlers; ordering of deliveries is the schedule"
    rule = ("seeded delivered datagram histories from 1-3 peer IPs (each with P2P and RDAC source ports, optional rebind port, optional "
            "same address towards both handlers) to the real P2P and RDAC handlers sharing one storage: registration, DMR/RDAC start-up, "
            "ping, ack, unknown command, id byte 255, short ping, expected / wrong-step / malformed RDAC responses, 1-byte resets, "
            "garbage, empty; faults dup, reorder, drop, truncate, garbage, peer_reset, peer_rebind, snmp_fail; exh arms enumerate all "
            "sequences over a 10-symbol alphabet. distinct_nontrivial = distinct (handler, source registered?, record exists?, step of "
            "source, delivered class, fault on that delivery, other peer active?) transitions on which the oracle was evaluated")
    real_components = ["P2PDatagramProtocol", "RDACDatagramProtocol", "RepeaterStorage", "Repeater (except read_snmp_values)"]
    stub_components = ["Repeater.read_snmp_values (stub: returns / patches / raises on injected snmp_fail)", "SimDatagramTransport", "scripted peers",
                       "uuid seam", "byte-level classifier of handler input and output (oracle)"]
    assumptions = ["'completed registration' = a registration datagram from that source address was handled without the handler raising",
                   "requests from registered peers that make a handler raise (id byte 255, ping shorter than 15 bytes) are recorded, not judged",
                   "RDAC peers are identified by IP (the handler's step table is keyed by IP)"]

    def preload(self):
        from checks import c19

        c19.preload_cotenant()
        import okdmr.dmrlib.protocols.hytera.p2p_datagram_protocol  # noqa
        import okdmr.dmrlib.protocols.hytera.rdac_datagram_protocol  # noqa

    def budget(self, tier):
        return 150.0 if tier == "quick" else 3000.0

    def arms(self, tier):
        if tier == "quick":
            return [("exh4", 10 + 100 + 1000 + 10000), ("clean", 4000), ("faults", 12000)]
        return [("exh6", 10 + 100 + 1000 + 10000 + 100000 + 1000000), ("clean", 60000), ("faults", 240000)]

    # ------------------------------------------------------------------ generation

    def _advance(self, step, ip, data):
        """generator-side prediction of the RDAC step (only used to steer peers towards deep states)"""
        s = step.get(ip, 0)
        if len(data) == 1 and s != 14:
            step[ip] = 1
        elif s == 0:
            step[ip] = 1
        elif s != 14 and data[:4] == EXP[s]:
            step[ip] = NEXT[s]

    def generate(self, arm, index, streams, tier):
        import random

        w, k, f, s = streams["work"], streams["knobs"], streams["fault"], streams["sched"]
        if arm.startswith("exh"):
            return self._gen_exh(index, w)
        global BODY_STYLE
        BODY_STYLE = k.choice(["random", "random", "atoms", "atoms", "sparse"])
        npeers = k.choice([1, 2, 2, 3, 3])
        ips = list(IPS)
        v6 = k.random() < 0.2
        if v6:
            ips = [IPS6[0], IPS6[1], k.choice([IPS[0], IPS6[2]])]
            if k.random() < 0.35:
                ips = list(IPS6LL)
            elif k.random() < 0.3:
                # the same link-local host AND port reachable over two interfaces: the peers differ only in the scope id of the 4-tuple
                ips = ["fe80::1|2", "fe80::1|3", "fe80::2|2"]
        v6tuple = v6 and k.random() < 0.5  # asyncio hands (host, port, flowinfo, scope_id) to datagram_received for IPv6 sockets
        knobs = {"peers": npeers, "uuid_seed": k.getrandbits(32), "shared_addr": k.random() < 0.25,
                 "app_sets_out": k.random() < 0.5, "snmp_patches": k.random() < 0.3,
                 "cb_kind": k.choice(["function", "function", "bound_method", "bound_method", "partial", "callable_object"]),
                 "twin_lag": k.choice([1, 3, 7]) if k.random() < 0.15 else 0}
        rates = {}
        if arm == "faults" and f.random() > 0.1:
            for x in ("dup", "reorder", "drop", "truncate", "garbage", "peer_reset", "peer_rebind", "snmp_fail", "handler_restart", "callback_raises"):
                if f.random() < 0.5:
                    rates[x] = f.random() * 0.3
        n = k.choice([1, 2, 3, 5, 8, 13, 21, 34, 55, 89, 150])
        if k.random() < 0.012:
            # scale runs: a network of hundreds of repeaters talking to one pair of handlers, and a history long enough for many of them
            npeers = k.choice([130, 270])
            ips = [f"10.2.{i // 250}.{i % 250 + 1}" for i in range(npeers)]
            n = k.choice([500, 900])
        follow = k.choice([0.5, 0.8, 0.95])  # how faithfully peers follow the real handshake
        template = k.getrandbits(16) if k.random() < 0.5 else None  # all peers answer from one template (cloned repeaters)
        p_rdac = k.choice([0.3, 0.5, 0.8])
        step = {}
        reg = set()
        ops = []
        t = 0.0
        dropped = 0
        for _ in range(n):
            t += w.expovariate(20.0)
            ip = ips[s.randrange(npeers)]
            fl = []
            port_p2p = P2P_PORT if not knobs["shared_addr"] else RDAC_PORT
            if rates and f.random() < rates.get("peer_rebind", 0):
                port_p2p = 40000 + f.randrange(3)
                fl.append("peer_rebind")
            if w.random() < p_rdac:
                dst, src = "RDAC", [ip, RDAC_PORT]
                st = step.get(ip, 0)
                if rates and f.random() < rates.get("peer_reset", 0):
                    data = bytes([f.choice([0, 0, 1, 255])])
                    fl.append("peer_reset")
                elif st in EXP and w.random() < 0.06:
                    # near miss: the expected answer with its version / block octet altered (a continuation fragment 7E 04 01 .., another version)
                    nm = bytearray(rdac_response(st, w, template=template))
                    nm[w.choice([1, 2])] ^= w.choice([0x01, 0x07, 0x80])
                    data = bytes(nm)
                elif st in EXP and w.random() < follow:
                    data = rdac_response(st, w, wellformed=w.random() < 0.9, template=template)
                elif st == 0 or w.random() < 0.3:
                    data = bytes([w.choice([0, 0, 7])]) if w.random() < 0.5 else b"hello" + bytes(w.randrange(0, 8))
                elif w.random() < 0.6:
                    data = rdac_response(w.choice(list(EXP)), w, wellformed=w.random() < 0.7)
                else:
                    data = bytes(w.getrandbits(8) for _ in range(w.choice([0, 2, 3, 4, 5, 30, 250])))
            else:
                dst, src = "P2P", [ip, port_p2p]
                isreg = (ip, port_p2p) in reg
                c = w.choices(["registration", "dmr", "rdac", "ping", "ack", "unknown", "reg255", "pingshort", "garbage", "empty"],
                              [3 if not isreg else 1, 3, 3, 3, 1, 1, 0.3, 0.5, 1, 0.2])[0]
                data = {
                    "registration": lambda: p2p_cmd(0x10, w), "dmr": lambda: p2p_cmd(0x11, w), "rdac": lambda: p2p_cmd(0x12, w),
                    "ping": lambda: p2p_ping(w), "ack": lambda: bytes(4) + ACK + bytes(12), "unknown": lambda: p2p_cmd(w.choice([0x00, 0x13, 0x44, 0xFF, 0x0D, 0x0E, 0x0F, 0x14, 0x20, 0x90, 0x91, 0x92, w.randrange(256)]), w),  # (neighbours and aliases of 0x10..0x12 included)
                    "reg255": lambda: p2p_cmd(w.choice([0x10, 0x11, 0x12]), w, rid=255), "pingshort": lambda: p2p_ping(w, n=w.randrange(9, 15)),
                    "garbage": lambda: bytes(w.getrandbits(8) for _ in range(w.randrange(1, 40))), "empty": lambda: b"",
                }[c]()
            if "|" in src[0]:
                host, scope = src[0].split("|")
                src = [host, src[1], 0, int(scope)]
            elif v6tuple and ":" in src[0]:
                src = src + [0, 0]
            op = {"kind": "deliver", "t": round(t, 6), "dst": dst, "src": src, "data": data.hex(), "f": fl, "snmp_fail": False}
            if rates:
                if f.random() < rates.get("snmp_fail", 0):
                    op["snmp_fail"] = True
                    op["f"] = op["f"] + ["snmp_fail"]
                if dst == "RDAC" and f.random() < rates.get("callback_raises", 0):
                    op["callback_raises"] = True  # counted as fired only if the callback is actually invoked
                if f.random() < rates.get("drop", 0):
                    dropped += 1
                    continue
                if f.random() < rates.get("garbage", 0):
                    op["data"] = bytes(f.getrandbits(8) for _ in range(f.choice([1, 2, 9, 21, 30]))).hex()
                    op["f"] = op["f"] + ["garbage"]
                elif f.random() < rates.get("truncate", 0) and len(data) > 1:
                    op["data"] = data[: f.randrange(len(data))].hex()
                    op["f"] = op["f"] + ["truncate"]
                if f.random() < rates.get("dup", 0):
                    ops.append(dict(op, t=round(t + f.uniform(0, 0.2), 6), f=op["f"] + ["dup"]))
                if f.random() < rates.get("reorder", 0):
                    op["t"] = round(max(0.0, t + f.uniform(-0.2, 0.2)), 6)
                    op["f"] = op["f"] + ["reorder"]
            ops.append(op)
            # steer: predict along generation order (approximation under reordering; oracle does not use it)
            d2 = bytes.fromhex(op["data"])
            if dst == "RDAC":
                self._advance(step, ip, d2)
            elif classify_in(d2) == "registration" and not op["snmp_fail"] and d2[4] != 255:
                reg.add((ip, src[1]))
            if rates and f.random() < rates.get("handler_restart", 0) * 0.15:
                which = f.choice(["RDAC", "P2P"])
                if f.random() < 0.5:
                    # the socket under the handler goes away and a new one is attached (connection_lost, connection_made on the SAME handler object):
                    # nothing a peer sent changes by that, so neither does any peer's step or registration
                    ops.append({"kind": "new_transport", "t": round(t, 6), "dst": which, "exc": f.random() < 0.5, "disconnect": f.random() < 0.5})
                else:
                    ops.append({"kind": "handler_restart", "t": round(t, 6), "dst": which})
                    if which == "RDAC":
                        step.clear()
            if knobs["app_sets_out"] and w.random() < 0.15:
                ops.append({"kind": "app_set_out", "t": round(t, 6), "addr": src, "out": [src[0], w.choice([P2P_PORT, 40009])]})
                if w.random() < 0.4:
                    # the application also records that this repeater sits behind NAT (a public address on a third host): none of the
                    # handlers' answers may go there -- they answer the requester / the stored outbound address
                    ops[-1]["nat"] = [w.choice(["198.51.100.7", "10.1.1.200"]), w.choice([P2P_PORT, 50123])]
        ops.sort(key=lambda o: o["t"])
        case = {"knobs": knobs, "ops": ops, "dropped": dropped}
        if k.random() < 0.08:
            from checks import c19

            case["cotenant"] = c19.gen_cotenant(streams["cotenant"])
        return case

    def _gen_exh(self, index, w):
        L, i = 1, index
        while i >= 10 ** L:
            i -= 10 ** L
            L += 1
        syms = []
        for _ in range(L):
            syms.append(i % 10)
            i //= 10
        P, Q = IPS[0], IPS[1]
        step = {}
        ops = []
        t = 0.0
        for sy in syms:
            t += 0.05
            snmp_fail = False
            if sy == 0:
                dst, src, data = "P2P", [P, P2P_PORT], p2p_cmd(0x10, w, rid=1, n=32)
            elif sy == 1:
                dst, src, data = "P2P", [P, P2P_PORT], p2p_cmd(0x11, w, rid=1, n=32)
            elif sy == 2:
                dst, src, data = "P2P", [P, P2P_PORT], p2p_cmd(0x12, w, rid=1, n=32)
            elif sy == 3:
                dst, src, data = "P2P", [P, P2P_PORT], p2p_ping(w, n=20)
            elif sy == 4:
                dst, src, data = "P2P", [Q, P2P_PORT], p2p_ping(w, n=20)
            elif sy in (5, 7):
                ip = P if sy == 5 else Q
                st = step.get(ip, 0)
                dst, src = "RDAC", [ip, RDAC_PORT]
                data = rdac_response(st, w) if st in EXP else b"\x00"
            elif sy == 6:
                dst, src, data = "RDAC", [P, RDAC_PORT], b"\x00"
            elif sy == 8:
                dst, src, data, snmp_fail = "P2P", [P, P2P_PORT], p2p_cmd(0x10, w, rid=1, n=32), True
            else:
                st = step.get(P, 0)
                wrong = [x for x in EXP if EXP[x] != EXP.get(st)][w.randrange(3)]
                dst, src, data = "RDAC", [P, RDAC_PORT], rdac_response(wrong, w)
            if dst == "RDAC":
                self._advance(step, src[0], data)
            ops.append({"kind": "deliver", "t": round(t, 6), "dst": dst, "src": src, "data": data.hex(), "f": [], "snmp_fail": snmp_fail})
        return {"knobs": {"peers": 2, "uuid_seed": 1, "shared_addr": False, "app_sets_out": False, "snmp_patches": False}, "ops": ops, "dropped": 0}

    def sample(self, case):
        return {"arm": case.get("arm"), "knobs": case["knobs"], "n_ops": len(case["ops"]),
                "ops": [{kk: (o[kk][:40] if kk == "data" else o[kk]) for kk in o if kk in ("kind", "dst", "src", "data", "f", "snmp_fail")} for o in case["ops"][:8]]}

    def simplify(self, case):
        if case.get("cotenant"):
            yield {kk: v for kk, v in case.items() if kk != "cotenant"}
        for i, o in enumerate(case["ops"]):
            if o.get("snmp_fail"):
                ops = list(case["ops"])
                ops[i] = dict(o, snmp_fail=False)
                yield dict(case, ops=ops)
        for kk in ("snmp_patches", "app_sets_out"):
            if case["knobs"].get(kk):
                yield dict(case, knobs=dict(case["knobs"], **{kk: False}))
        if case["knobs"].get("twin_lag"):
            yield dict(case, knobs=dict(case["knobs"], twin_lag=0))
        if case["knobs"].get("cb_kind", "function") != "function":
            yield dict(case, knobs=dict(case["knobs"], cb_kind="function"))

    # ------------------------------------------------------------------ execution

    def execute(self, case):
        import okdmr.dmrlib.storage.repeater as rmod
        from okdmr.dmrlib.protocols.hytera.p2p_datagram_protocol import P2PDatagramProtocol
        from okdmr.dmrlib.protocols.hytera.rdac_datagram_protocol import RDACDatagramProtocol
        from okdmr.dmrlib.storage.repeater import Repeater
        from okdmr.dmrlib.storage.repeater_storage import RepeaterStorage
        from checks.c20 import UuidSeam

        res = core.RunResult()
        log = core.EventLog()
        knobs = case["knobs"]
        rmod.uuid = UuidSeam(knobs.get("uuid_seed", 1))
        snmp = {"fail": False, "calls": 0}

        def read_snmp_values(self, *a, **kw):
            snmp["calls"] += 1
            if snmp["fail"]:
                raise TimeoutError("simulated SNMP failure")
            if knobs.get("snmp_patches"):
                self.patch({"snmp_model": "RD985", "snmp_calls": snmp["calls"]})
            return {}

        Repeater.read_snmp_values = read_snmp_values
        out = []
        st = RepeaterStorage()
        p2p = P2PDatagramProtocol(st, p2p_port=P2P_PORT, rdac_port=RDAC_PORT)
        p2p.connection_made(SimDatagramTransport("P2P", lambda o, d, a: out.append((o, d, a))))
        done = []
        cbfail = {"on": False}

        def completed(u):
            done.append(u)
            if cbfail["on"]:
                res.fault("callback_raises")
                raise RuntimeError("simulated failure inside the application's completion callback")

        def as_callback():
            """the application's completion callback in the form this run's application uses (knob): a plain function, a bound method of a
            listener object nobody else refers to, a functools.partial, or a callable object"""
            kind = case["knobs"].get("cb_kind", "function")
            if kind == "function":
                return completed

            class Listener:
                def on_done(self, u, *a):
                    return completed(u)

                __call__ = on_done

            if kind == "bound_method":
                return Listener().on_done
            if kind == "partial":
                import functools

                return functools.partial(Listener.on_done, Listener())
            return Listener()

        rdac = RDACDatagramProtocol(st, callback=as_callback())
        rdac.connection_made(SimDatagramTransport("RDAC", lambda o, d, a: out.append((o, d, a))))
        reported = {}  # ip -> completion reports since the RDAC handler was (re)created
        registered = set()  # model: addresses that completed registration
        step = {}  # model: ip -> step
        completions = {}
        active_ips = set()
        if case.get("dropped"):
            res.fault("drop", case["dropped"])
        co = case.get("cotenant") or []
        if co:
            from checks import c19

            c19.run_cotenant(co[: len(co) // 2])
            res.fault("cotenant_library_calls", len(co))
        twin = None
        if case["knobs"].get("twin_lag"):
            st2 = RepeaterStorage()
            twin = {"lag": case["knobs"]["twin_lag"], "q": [], "p2p": P2PDatagramProtocol(st2, p2p_port=P2P_PORT, rdac_port=RDAC_PORT),
                    "rdac": RDACDatagramProtocol(st2, callback=lambda u: None)}
            twin["p2p"].connection_made(SimDatagramTransport("P2P'", lambda o, d, a: None))
            twin["rdac"].connection_made(SimDatagramTransport("RDAC'", lambda o, d, a: None))

        for i, op in enumerate(case["ops"]):
            if co and i == len(case["ops"]) // 2:
                c19.run_cotenant(co[len(co) // 2:])
            if op["kind"] == "handler_restart":
                # the handler object is discarded and re-created on the same storage (volatile state lost; the storage survives)
                if op["dst"] == "RDAC":
                    rdac = RDACDatagramProtocol(st, callback=as_callback())
                    rdac.connection_made(SimDatagramTransport("RDAC", lambda o, d, a: out.append((o, d, a))))
                    step = {}
                    reported = {}
                else:
                    p2p = P2PDatagramProtocol(st, p2p_port=P2P_PORT, rdac_port=RDAC_PORT)
                    p2p.connection_made(SimDatagramTransport("P2P", lambda o, d, a: out.append((o, d, a))))
                res.fault("handler_restart")
                log.add(op["t"], op["dst"], "handler_restart", None)
                continue
            if op["kind"] == "new_transport":
                h = rdac if op["dst"] == "RDAC" else p2p
                try:
                    if op["dst"] == "P2P" and op.get("disconnect"):
                        h.disconnect()
                    h.connection_lost(OSError("network is down") if op.get("exc") else None)
                except Exception:
                    res.probe("lifecycle_call_raised")  # the property is silent about the lifecycle calls themselves
                h.connection_made(SimDatagramTransport(op["dst"], lambda o, d, a: out.append((o, d, a))))
                res.fault("new_transport")
                log.add(op["t"], op["dst"], "new_transport", None)
                continue
            if op["kind"] == "app_set_out":
                a = tuple(op["addr"])
                if st.match_attr("address_in", a) is not None:
                    pt = {"address_out": tuple(op["out"])}
                    if op.get("nat"):
                        pt.update(nat_enabled=True, address_nat=tuple(op["nat"]))
                        res.fault("record_marked_behind_nat")
                    st.match_incoming(a, patch=pt)
                    log.add(op["t"], "app", "set_out", (list(a), op["out"]))
                continue
            A = tuple(op["src"])
            d = bytes.fromhex(op["data"])
            if twin is not None:
                # a second, independent installation in the same process (own storage, own handlers, outputs ignored) hears the same peers a
                # few datagrams late: whatever it knows about a peer differs from what the first installation knows at most moments
                twin["q"].append((op["dst"], d, A))
                if len(twin["q"]) > twin["lag"]:
                    tdst, td, tA = twin["q"].pop(0)
                    try:
                        (twin["p2p"] if tdst == "P2P" else twin["rdac"]).datagram_received(td, tA)
                    except Exception:
                        pass
                    res.fault("twin_installation_delivery")
            for x in op.get("f", []):
                res.fault(x)
            fault = "+".join(op.get("f", [])) or "-"
            snmp["fail"] = bool(op.get("snmp_fail"))
            del out[:]
            raised = None
            res["evals"] += 1
            V = lambda oracle, site, detail, sig=None: res.violate(oracle, site, detail, at=i, sig=sig)
            other_active = int(len(active_ips - {A[0]}) > 0)
            if op["dst"] == "P2P":
                cin = classify_in(d)
                rec_before = st.match_attr("address_in", A)
                rec_exists = rec_before is not None
                was_reg = A in registered
                out_addr_before = rec_before.address_out if rec_exists else None
                try:
                    p2p.datagram_received(d, A)
                except Exception as e:
                    raised = e
                sent = [(dd, tuple(a) if a else a) for _, dd, a in out]
                log.add(op["t"], "P2P", "deliver", (d.hex(), list(A), [(x.hex(), list(a) if a else None) for x, a in sent], type(raised).__name__))
                kinds = [classify_out(x) for x, _ in sent]
                if cin == "registration":
                    if raised is None:
                        registered.add(A)
                    bad = [k2 for k2 in kinds if k2 in ("acceptance", "redirect", "pinganswer")]
                    if bad and not was_reg:
                        V("C18.p2p-only-registered", "registration", f"registration datagram from unregistered {A} produced {bad}")
                    if len(sent) > 1:
                        V("C18.p2p-one-registration-response", "registration", f"{len(sent)} datagrams for one registration from {A}")
                elif cin in ("dmr_startup", "rdac_startup", "ping"):
                    if not was_reg:
                        if rec_exists:
                            res.probe("request_from_address_with_record_but_no_completed_registration")
                        if other_active and registered:
                            res.probe("request_from_unregistered_while_another_peer_is_registered")
                        if sent != [(b"\x00", A)]:
                            V("C18.p2p-reject-unregistered", cin, f"request from unregistered {A} answered with {[(x.hex()[:40], a) for x, a in sent]} (want single 00 to requester)")
                    else:
                        rp = st.match_attr("address_in", A)
                        allowed = {A, (A[0], P2P_PORT)}
                        if rp is not None:
                            allowed.add(tuple(rp.address_out))
                        if out_addr_before is not None:
                            allowed.add(tuple(out_addr_before))
                        for (x, a), k2 in zip(sent, kinds):
                            if k2 == "reject":
                                V("C18.p2p-serve-registered", cin, f"registered {A} got the single-byte reject")
                            elif k2 not in ("acceptance", "redirect", "pinganswer"):
                                V("C18.p2p-answer-shape", cin, f"unexpected datagram {x.hex()[:60]} ({k2}) for {cin} from {A}")
                            if a not in allowed:
                                V("C18.p2p-destination", cin, f"{k2} for request from {A} sent to {a}, allowed {sorted(allowed)}")
                        if raised is None:
                            want = ["pinganswer"] if cin == "ping" else ["acceptance", "redirect"]
                            if kinds != want:
                                V("C18.p2p-serve-registered", cin, f"registered {A}: {cin} answered with {kinds}, want {want}")
                        else:
                            res.probe("request_from_registered_peer_made_handler_raise")
                else:
                    if sent:
                        V("C18.p2p-unsolicited", cin, f"{cin} datagram {d.hex()[:60]} from {A} produced {[(x.hex()[:40], a) for x, a in sent]}")
                key = f"P2P|{int(was_reg)}|{int(rec_exists)}|-|{cin}|{fault}|{other_active}"
            else:
                ip = A[0]
                before = dict(rdac.step)
                s0 = step.get(ip, 0)
                nd = len(done)
                cbfail["on"] = bool(op.get("callback_raises"))
                try:
                    rdac.datagram_received(d, A)
                except Exception as e:
                    raised = e
                cbfail["on"] = False
                if len(done) > nd:
                    reported[ip] = reported.get(ip, 0) + (len(done) - nd)
                    if reported[ip] > 1:
                        V("C18.rdac-completion", "reported-twice", f"completion of {ip}'s identification run reported {reported[ip]} times (step {s0}, "
                          f"datagram {d.hex()[:16]}, callback raised: {bool(op.get('callback_raises'))})")
                sent = [(dd, tuple(a) if a else a) for _, dd, a in out]
                s1 = rdac.step.get(ip, 0)
                log.add(op["t"], "RDAC", "deliver", (d.hex()[:80], list(A), s0, s1, len(sent), type(raised).__name__))
                for y in set(before) | set(rdac.step):
                    if y != ip and rdac.step.get(y) != before.get(y):
                        V("C18.rdac-other-peer-step", f"step{s0}", f"datagram from {ip} changed step of {y}: {before.get(y)} -> {rdac.step.get(y)}")
                if (before.get(ip) or 0) != s0:
                    V("C18.rdac-step", f"step{s0}", f"handler step for {ip} was {before.get(ip)} before this delivery, model {s0}")
                prefix_ok = s0 in EXP and d[:4] == EXP[s0]
                if len(d) == 1 and s0 != 14:
                    allowed = {1}
                    cls = "reset"
                    if s0 == 4:
                        res.probe("reset_at_step_4")
                    if (STEP0_REQUEST, A) not in sent and raised is None:
                        V("C18.rdac-reset", f"step{s0}", f"one-byte reset at step {s0} did not re-send the step-0 request (sent {[x.hex() for x, _ in sent]})")
                elif s0 == 14:
                    allowed = {14}
                    cls = "after_completion"
                elif s0 == 0:
                    allowed = {1}
                    cls = "first_contact"
                elif prefix_ok:
                    allowed = {NEXT[s0], s0} if raised is not None else {NEXT[s0]}
                    cls = "expected"
                    if s0 + 1 in EXP and EXP.get(NEXT.get(s0)) == d[:4]:
                        res.probe("response_also_matches_next_step_prefix")
                else:
                    allowed = {s0}
                    cls = "unexpected"
                if s1 not in allowed:
                    V("C18.rdac-step", f"step{s0}:{cls}", f"{ip}: step {s0} -> {s1} on {cls} datagram {d.hex()[:24]}.. (len {len(d)}), allowed {sorted(allowed)}, raised={type(raised).__name__}")
                step[ip] = s1
                if s0 == 13 and s1 == 14:
                    res.probe("reached_step_14")
                    completions[ip] = completions.get(ip, 0) + 1
                    if len(done) != nd + (0 if op.get("snmp_fail") else 1) and not (op.get("snmp_fail") and len(done) == nd):
                        V("C18.rdac-completion", "13->14", f"{ip} completed: callback count went {nd} -> {len(done)}")
                    elif len(done) == nd + 1:
                        rec = st.match_attr("address_in", A)
                        if rec is None or done[-1] != rec.id:
                            V("C18.rdac-completion", "13->14", f"completion reported id {done[-1]}, record of {A} is {getattr(rec, 'id', None)}")
                elif len(done) != nd:
                    V("C18.rdac-completion", f"step{s0}", f"completion callback fired on {s0}->{s1} for {ip}")
                if sent and cls in ("unexpected", "after_completion") and not (s0 == 14 and len(d) == 1):
                    V("C18.rdac-unsolicited", f"step{s0}:{cls}", f"{cls} datagram at step {s0} made the handler send {[x.hex()[:24] for x, _ in sent]}")
                for x, a in sent:
                    if a != A:
                        V("C18.rdac-destination", f"step{s0}", f"RDAC handler answered {a} for a datagram from {A}")
                key = f"RDAC|-|-|{s0}|{cls}|{fault}|{other_active}"
            active_ips.add(A[0])
            if len({sa[1] for sa in {tuple(o["src"]) for o in case["ops"][: i + 1] if o["kind"] == "deliver"} if sa[0] == A[0]}) > 1:
                res.probe("same_ip_two_ports")
            res["cov"].add(key)
            # shared storage invariants (ties C20's guarantee to its real users)
            recs = st.all()
            ids = [r.id for r in recs]
            ains = [r.address_in for r in recs]
            if len(set(ids)) != len(ids) or len(set(ains)) != len(ains):
                V("C18.storage-identity", op["dst"], f"storage holds duplicate ids/addresses: {ains}")
            if len(res["viol"]) >= 3:
                break
        res["ops"] = len(case["ops"])
        res["sim_time"] = case["ops"][-1]["t"] if case["ops"] else 0.0
        res["digest"] = log.digest()
        return res


CHECKS = {"C18": C18()}
