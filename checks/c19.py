"""C19 — codec calls are pure: scheduled interleavings of codec calls vs. a pristine-process oracle.

2-4 logical clients each hold a seeded stream of calls on the public codec entry points; the
seeded scheduler interleaves them call by call in ONE process (the way asyncio handlers share
the library).  Every call's canonicalised outcome must equal the outcome of the same call with
the same arguments evaluated ALONE in a child forked from the pristine template, which runs
under a different simulated clock and entropy state.  Argument buffers are snapshotted before
and compared after each call.
"""
import enum
import glob
import importlib
import os
import re

from dsim import core, pristine
from dsim.base import Check

_cache = {}


def L(path):
    """lazy import of 'pkg.mod:Attr' or 'pkg.mod:Attr.sub'"""
    if path not in _cache:
        mod, _, attr = path.partition(":")
        o = importlib.import_module("okdmr.dmrlib." + mod)
        for a in attr.split("."):
            if a:
                o = getattr(o, a)
        _cache[path] = o
    return _cache[path]


# ------------------------------------------------------------------ tagged JSON <-> python values


def mat(v):
    """tagged JSON -> python value (fresh object every time)"""
    from bitarray import bitarray

    if isinstance(v, dict):
        if "ba" in v:
            return bitarray(v["ba"], endian="little") if v.get("le") else bitarray(v["ba"])
        if "b" in v:
            return memoryview(bytes.fromhex(v["b"])) if v.get("mv") else bytes.fromhex(v["b"])
        if "bya" in v:
            return bytearray.fromhex(v["bya"])
        if "e" in v:
            return L(v["e"][0])[v["e"][1]]
        if "np" in v:
            import numpy

            a = numpy.array(v["np"])
            if v.get("ro"):
                a.flags.writeable = False  # read-only array (a view of received bytes, a broadcast result)
            return a
        if "arr" in v:
            from array import array

            return array("B", v["arr"])
        if "bab" in v:  # the octets as a byte-aligned bitarray (exports the buffer protocol like bytes)
            o = bitarray()
            o.frombytes(bytes.fromhex(v["bab"]))
            return o
        if "npb" in v:  # the octets as a numpy uint8 array
            import numpy

            a = numpy.frombuffer(bytes.fromhex(v["npb"]), dtype=numpy.uint8)  # read-only view of the received bytes ...
            return a if len(a) % 2 else a.copy()  # ... or a writable copy
        if "none" in v:
            return None
    if isinstance(v, list):
        return [mat(x) for x in v]
    return v


def canon(x, depth=0):
    from array import array

    import numpy
    from bitarray import bitarray

    if isinstance(x, bitarray):
        return "ba:" + x.to01()
    if isinstance(x, enum.Enum):
        return type(x).__name__ + "." + x.name
    if isinstance(x, (bytes, bytearray)):
        return ("by:" if isinstance(x, bytes) else "bya:") + bytes(x).hex()
    if isinstance(x, bool) or x is None or isinstance(x, (int, str)):
        return repr(x)
    if isinstance(x, float):
        return repr(round(x, 9))
    if isinstance(x, numpy.ndarray):
        return ["np"] + [canon(i, depth + 1) for i in x.tolist()]
    if isinstance(x, numpy.generic):
        return canon(x.item(), depth)
    if isinstance(x, array):
        return ["arr"] + list(x)
    if isinstance(x, (list, tuple)):
        return [canon(i, depth + 1) for i in x]
    if isinstance(x, dict):
        return {repr(canon(k)): canon(v, depth + 1) for k, v in sorted(x.items(), key=lambda kv: repr(canon(kv[0])))}
    if hasattr(x, "isoformat"):
        return "t:" + x.isoformat()
    if hasattr(x, "__dict__") and depth < 5:
        d = {k: canon(v, depth + 1) for k, v in sorted(vars(x).items()) if k not in ("logger", "_logger")}
        d["__type__"] = type(x).__name__
        return d
    return "<" + type(x).__name__ + ">"


def outcome_of(fn, args, keep=None):
    """canonical outcome of one call: value / serialisation / repr, or the exception type (what the library prints goes to a sink)"""
    import io
    import sys

    old = sys.stdout
    sys.stdout = io.StringIO()
    try:
        return _outcome_of(fn, args, keep)
    finally:
        sys.stdout = old


def _outcome_of(fn, args, keep=None):
    try:
        r = fn(*args)
    except Exception as e:
        return ["raised", type(e).__name__]
    if keep is not None:
        keep.append(r)
    out = ["ok", canon(r)]
    # objects: what a user would observe through the public serialisers as well
    items = r if isinstance(r, (list, tuple)) else [r]
    for it in items[:4]:
        for m in ("as_bits", "as_bytes", "as_xml"):
            if hasattr(it, m) and not isinstance(it, (bytes, bytearray)) and not isinstance(it, type):
                try:
                    sv = getattr(it, m)()
                    if isinstance(sv, str) and " at 0x" in sv:
                        continue  # text that renders an object's address (a memoryview slice kept from an off-contract argument): not comparable
                    out.append([m, canon(sv)])
                except Exception as e:
                    out.append([m, "raised", type(e).__name__])
        if hasattr(it, "__dict__") and not isinstance(it, type):
            try:
                rp = repr(it)
                if " at 0x" not in rp:
                    out.append(["repr", rp])
            except Exception as e:
                out.append(["repr", "raised", type(e).__name__])
    return out


# ------------------------------------------------------------------ clock / entropy seams (different in history and oracle process)


class Seams:
    def __init__(self, t0, seed):
        import datetime as _dt
        import os as _os
        import random as _random
        import secrets as _secrets
        import sys
        import time as _time
        import uuid as _uuid

        self.reads = 0
        self.t = float(t0)
        seams = self
        real_dt, real_date = _dt.datetime, _dt.date
        rnd = _random.Random(seed)

        class _MetaDT(type(real_dt)):
            def __instancecheck__(cls, obj):
                return isinstance(obj, real_dt)

        class FakeDateTime(real_dt, metaclass=_MetaDT):
            @classmethod
            def now(cls, tz=None):
                seams.reads += 1
                return real_dt.fromtimestamp(seams.t, tz)

            @classmethod
            def utcnow(cls):
                seams.reads += 1
                return real_dt.utcfromtimestamp(seams.t)

            @classmethod
            def today(cls):
                seams.reads += 1
                return real_dt.fromtimestamp(seams.t)

        class _MetaD(type(real_date)):
            def __instancecheck__(cls, obj):
                return isinstance(obj, real_date)

        class FakeDate(real_date, metaclass=_MetaD):
            @classmethod
            def today(cls):
                seams.reads += 1
                return real_date.fromtimestamp(seams.t)

        def f_time():
            seams.reads += 1
            return seams.t

        def f_time_ns():
            seams.reads += 1
            return int(seams.t * 1e9)

        real_localtime, real_gmtime, real_strftime = _time.localtime, _time.gmtime, _time.strftime

        def f_localtime(secs=None):
            if secs is None:
                seams.reads += 1
                secs = seams.t
            return real_localtime(secs)

        def f_gmtime(secs=None):
            if secs is None:
                seams.reads += 1
                secs = seams.t
            return real_gmtime(secs)

        def f_strftime(fmt, t=None):
            if t is None:
                seams.reads += 1
                t = real_localtime(seams.t)
            return real_strftime(fmt, t)

        def f_urandom(n):
            seams.reads += 1
            return bytes(rnd.getrandbits(8) for _ in range(n))

        def f_uuid4():
            seams.reads += 1
            return _uuid.UUID(int=rnd.getrandbits(128), version=4)

        repl = {
            id(real_dt): FakeDateTime, id(real_date): FakeDate, id(_time.time): f_time, id(_time.time_ns): f_time_ns,
            id(_time.monotonic): f_time, id(_time.perf_counter): f_time, id(_time.localtime): f_localtime, id(_time.gmtime): f_gmtime,
            id(_time.strftime): f_strftime, id(_os.urandom): f_urandom, id(_uuid.uuid4): f_uuid4,
            id(_secrets.token_bytes): f_urandom, id(_secrets.randbits): lambda k: (seams.__setattr__("reads", seams.reads + 1), rnd.getrandbits(k))[1],
            id(_secrets.token_hex): lambda n=32: f_urandom(n).hex(),
        }
        for name in ("random", "randint", "randrange", "getrandbits", "choice", "choices", "shuffle", "sample", "uniform", "randbytes"):
            real = getattr(_random, name)
            bound = getattr(rnd, name)

            def mk(b):
                def w(*a, **k):
                    seams.reads += 1
                    return b(*a, **k)
                return w

            repl[id(real)] = mk(bound)
        # 1. module attributes of the stdlib modules themselves
        for mod in (_time, _dt, _os, _uuid, _secrets, _random):
            for k, v in list(vars(mod).items()):
                if id(v) in repl and not k.startswith("__"):
                    try:
                        setattr(mod, k, repl[id(v)])
                    except Exception:
                        pass
        # 2. names already bound inside library modules (from x import y executed at import time)
        for mname, mod in list(sys.modules.items()):
            if mod is None or not mname.startswith("okdmr."):
                continue
            for k, v in list(vars(mod).items()):
                if id(v) in repl:
                    try:
                        setattr(mod, k, repl[id(v)])
                    except Exception:
                        pass


# ------------------------------------------------------------------ entry-point registry

ENTRIES = {}


def E(name, fn, *specs, exempt=False, persistent=None):
    ENTRIES[name] = {"fn": fn, "specs": specs, "exempt": exempt}


def _build_registry():
    if ENTRIES:
        return
    calcs = {}

    def bitcrc(cfg, table):
        def f(bits):
            k = (cfg, table)
            if k not in calcs:  # one long-lived calculator per configuration, shared by all clients
                calcs[k] = L("etsi.crc.crc:BitCrcCalculator")(L("etsi.crc.crc:" + cfg).ETSI_DMR, table_based=table)
            return calcs[k].calculate_checksum(bits)
        return f

    for cfg in ("Crc7", "Crc8", "Crc9", "Crc16", "Crc32"):
        for table in (False, True):
            E(f"BitCrcCalculator({cfg},{'table' if table else 'bitwise'}).calculate_checksum", bitcrc(cfg, table), "bits:0-200")
    def customcrc(width, poly, table, feed=None):
        def f(bits):
            k = ("custom", width, poly, table, feed)
            if k not in calcs:  # a user-defined configuration of the public BitCrcConfiguration (legal, unusual), long-lived like the others
                kw = {"feed_width_bits": feed} if feed else {}
                try:
                    cfg = L("etsi.crc.crc:BitCrcConfiguration")(width_bits=width, polynomial=poly, init_value=0, final_xor_value=0, reverse_input_bytes=False,
                                                                reverse_output_bytes=False, **kw)
                except TypeError:
                    cfg = L("etsi.crc.crc:BitCrcConfiguration")(width_bits=width, polynomial=poly, init_value=0, final_xor_value=0, reverse_input_bytes=False,
                                                                reverse_output_bytes=False)
                calcs[k] = L("etsi.crc.crc:BitCrcCalculator")(cfg, table_based=table)
            return calcs[k].calculate_checksum(bits)
        return f

    for width, poly in ((16, 0x8005), (8, 0x31), (9, 0x119), (32, 0x1EDC6F41), (7, 0x09), (16, 0x1021)):
        for table in (False, True):
            E(f"BitCrcCalculator(custom w{width} poly {poly:#x},{'table' if table else 'bitwise'}).calculate_checksum", customcrc(width, poly, table), "bits:0-200")
    E("CRC8.calculate", lambda b: L("etsi.crc.crc8:CRC8").calculate(b), "bits:28|36|0-80")
    E("CRC8.check", lambda b, c: L("etsi.crc.crc8:CRC8").check(b, c), "bits:28|36", "int:0:255")
    E("CRC9.calculate", lambda b, m: L("etsi.crc.crc9:CRC9").calculate(b, m), "bits:80-200|0-200", "mask")
    E("CRC9.calculate_from_parts", lambda d, s, m, c: L("etsi.crc.crc9:CRC9").calculate_from_parts(data=d, serial_number=s, mask=m, crc32=c), "bytesm:6-22|6-22|0-24", "int:0:127", "mask", "crc32opt")  # (every length from zero: the sizes the block PDUs use, and any other)
    E("CRC9.check", lambda d, s, c9, m: L("etsi.crc.crc9:CRC9").check(d, s, c9, m), "bytesm:6-22|6-22|0-24", "int:0:127", "int:0:511", "mask")
    E("CRC16.calculate", lambda d, m: L("etsi.crc.crc16:CRC16").calculate(d, m), "bytesm:10|9|0-30", "mask")
    E("CRC16.check", lambda d, c, m: L("etsi.crc.crc16:CRC16").check(d, c, m), "bytesm:10|10|0-30", "int:0:65535", "mask")
    E("CRC32.calculate", lambda d: L("etsi.crc.crc32:CRC32").calculate(d), "bytesm:0-64")
    E("CRC32.check", lambda d, c: L("etsi.crc.crc32:CRC32").check(d, c), "bytesm:0-64", "int:0:4294967295")
    E("FiveBitChecksum.calculate", lambda d: L("etsi.fec.five_bit_checksum:FiveBitChecksum").calculate(d), "bytes:9")
    E("FiveBitChecksum.verify", lambda d, c: L("etsi.fec.five_bit_checksum:FiveBitChecksum").verify(d, c), "bytes:9", "int:0:31")
    codes = {"Hamming743": ("etsi.fec.hamming_7_4_3", 7, 4), "Hamming1393": ("etsi.fec.hamming_13_9_3", 13, 9), "Hamming15113": ("etsi.fec.hamming_15_11_3", 15, 11),
             "Hamming16114": ("etsi.fec.hamming_16_11_4", 16, 11), "Hamming17123": ("etsi.fec.hamming_17_12_3", 17, 12), "Golay2087": ("etsi.fec.golay_20_8_7", 20, 8),
             "QuadraticResidue1676": ("etsi.fec.quadratic_residue_16_7_6", 16, 7)}
    for cn, (mod, n, k) in codes.items():
        E(f"{cn}.generate", (lambda p: lambda b: L(p).generate(b))(f"{mod}:{cn}"), f"bits:{k}")
        E(f"{cn}.check", (lambda p: lambda b: L(p).check(b))(f"{mod}:{cn}"), f"cw:{cn}")
        if cn.startswith("Hamming"):
            E(f"{cn}.check_and_correct", (lambda p: lambda b: L(p).check_and_correct(b))(f"{mod}:{cn}"), f"cw:{cn}", exempt=True)
            E(f"{cn}.correct_numpy_array", (lambda p: lambda b: L(p).correct_numpy_array(b))(f"{mod}:{cn}"), f"cwnp:{cn}")
    B = "etsi.fec.bptc_196_96:BPTC19696"
    E("BPTC19696.encode", lambda b: L(B).encode(b), "bits:96")
    E("BPTC19696.deinterleave_data_bits", lambda b, r: L(B).deinterleave_data_bits(b, r), "cw:BPTC", "bool")
    E("BPTC19696.deinterleave_all_bits", lambda b: L(B).deinterleave_all_bits(b), "cw:BPTC")
    E("BPTC19696.repair_if_necessary", lambda b: L(B).repair_if_necessary(b), "cw:BPTC")
    for cn, mod, k in (("VBPTC12873", "etsi.fec.vbptc_128_72", 72), ("VBPTC6828", "etsi.fec.vbptc_68_28", 28), ("VBPTC3211", "etsi.fec.vbptc_32_11", 11)):
        p = f"{mod}:{cn}"
        # every input layout the encoder documents: information bits only / with the check field / the whole de-interleaved matrix
        E(f"{cn}.encode", (lambda p: lambda b: L(p).encode(b))(p), "bits:" + {72: "72|72|77|128", 28: "28|28|36|68", 11: "11|11|32"}[k])
        E(f"{cn}.deinterleave_data_bits", (lambda p: lambda b: L(p).deinterleave_data_bits(b))(p), f"cw:{cn}")
        E(f"{cn}.deinterleave_all_bits", (lambda p: lambda b: L(p).deinterleave_all_bits(b))(p), f"cw:{cn}")
    T = "etsi.fec.trellis:Trellis34"
    E("Trellis34.encode(bits)", lambda b: L(T).encode(b), "bits:144")
    E("Trellis34.encode(bytes)", lambda b: L(T).encode(b), "bytes:18")
    E("Trellis34.decode", lambda b, asb: L(T).decode(b, asb), "cw:Trellis", "bool")
    E("Trellis34 decode, stage by stage", lambda b: _staged(L(T), ["bits_to_dibits", "deinterleave", "dibits_to_points", "points_to_tribits", "tribits_to_bits"], b), "cw:Trellis")
    E("Trellis34 encode, stage by stage", lambda b: _staged(L(T), ["bits_to_tribits", "tribits_to_points", "points_to_dibits", "interleave", "dibits_to_bits"], b), "bits:144")
    R = "etsi.fec.reed_solomon_12_9_4:ReedSolomon1294"
    E("ReedSolomon1294.generate", lambda d, m: L(R).generate(d, m), "bytes:9", "bytes:3")
    E("ReedSolomon1294.check", lambda d, m: L(R).check(d, m), "cw:RS", "bytes:3z")
    # PDUs
    for nm, path, spec in (("CSBK", "etsi.layer2.pdu.csbk:CSBK", "pdu:csbk"), ("DataHeader", "etsi.layer2.pdu.data_header:DataHeader", "pdu:dh"),
                           ("FullLinkControl", "etsi.layer2.pdu.full_link_control:FullLinkControl", "pdu:flc"), ("PIHeader", "etsi.layer2.pdu.pi_header:PIHeader", "pdu:pi"),
                           ("ShortLinkControl", "etsi.layer2.pdu.short_link_control:ShortLinkControl", "pdu:slc"), ("SlotType", "etsi.layer2.pdu.slot_type:SlotType", "bits:20"),
                           ("EmbeddedSignalling", "etsi.layer2.pdu.embedded_signalling:EmbeddedSignalling", "bits:16"),
                           ("UDPIPv4CompressedHeader", "etsi.layer3.pdu.udp_ipv4_compressed_header:UDPIPv4CompressedHeader", "bits:40-200"),
                           ("Rate12Data", "etsi.layer2.pdu.rate12_data:Rate12Data", "pdu:r12"), ("Rate34Data", "etsi.layer2.pdu.rate34_data:Rate34Data", "pdu:r34"),
                           ("Rate1Data", "etsi.layer2.pdu.rate1_data:Rate1Data", "pdu:r1")):
        E(f"{nm}.from_bits", (lambda p: lambda b: L(p).from_bits(b))(path), spec)
    for nm, mod in (("Rate12Data", "etsi.layer2.pdu.rate12_data"), ("Rate34Data", "etsi.layer2.pdu.rate34_data"), ("Rate1Data", "etsi.layer2.pdu.rate1_data")):
        E(f"{nm}.from_bits_typed", (lambda m, n: lambda b, t: L(f"{m}:{n}").from_bits_typed(b, list(L(f"{m}:{n}Types"))[t % len(list(L(f"{m}:{n}Types")))]))(mod, nm),
          "pdu:" + {"Rate12Data": "r12", "Rate34Data": "r34", "Rate1Data": "r1"}[nm], "int:0:5")
    E("Burst()", lambda: L("etsi.layer2.burst:Burst")())
    E("Burst.from_bytes", lambda d, v: L("etsi.layer2.burst:Burst").from_bytes(d, L("etsi.layer2.elements.burst_types:BurstTypes").Vocoder if v else L("etsi.layer2.elements.burst_types:BurstTypes").DataAndControl), "burst", "bool")
    E("Burst.from_bits", lambda b, v: L("etsi.layer2.burst:Burst").from_bits(b, L("etsi.layer2.elements.burst_types:BurstTypes").Vocoder if v else L("etsi.layer2.elements.burst_types:BurstTypes").DataAndControl), "burstbits", "bool")
    E("Burst.from_hytera_ipsc", lambda d: L("etsi.layer2.burst:Burst").from_hytera_ipsc(d), "vec:72")
    E("HyteraIPSC.from_ipsc_bytes", lambda d: L("hytera.hytera_ipsc:HyteraIPSC").from_ipsc_bytes(d), "vec:72")
    E("CSBK(default broadcast_params)", lambda a: L("etsi.layer2.pdu.csbk:CSBK")(csbko=L("etsi.layer2.elements.csbk_opcodes:CsbkOpcodes").BSOutboundActivation, bs_address=a), "int:0:16777215")
    E("CSBK(preamble)", lambda a, b: L("etsi.layer2.pdu.csbk:CSBK")(csbko=L("etsi.layer2.elements.csbk_opcodes:CsbkOpcodes").PreambleCSBK, blocks_to_follow=a, source_address=b, target_address=b ^ 5), "int:0:255", "int:0:16777215")
    E("DataHeader(default bit_padding)", lambda a: _dh_default(a), "int:0:63")
    E("ServiceOptions(default reserved)", lambda a: L("etsi.layer3.elements.service_options:ServiceOptions")(priority_level=a % 4, is_emergency=a & 4), "int:0:7")
    E("ServiceOptions.from_bits", lambda b: L("etsi.layer3.elements.service_options:ServiceOptions").from_bits(b), "bits:8")
    # Hytera
    E("HDAP.from_bytes", lambda d: L("hytera.pdu.hdap:HDAP").from_bytes(d), "vecp:02|08|09|11|82|88|89|91")
    E("HRNP.from_bytes", lambda d: L("hytera.pdu.hrnp:HRNP").from_bytes(d), "vecp:7e")
    E("HSTRP.from_bytes", lambda d: L("hytera.pdu.hstrp:HSTRP").from_bytes(d), "vecp:3242")
    E("HRNP(default)", lambda a: L("hytera.pdu.hrnp:HRNP")(packet_number=a), "int:0:65535")
    E("RadioControlProtocol(default status_change_settings)", lambda a: _rcp_default(a), "int:0:1")
    E("LocationProtocol(default gpsdata)", lambda a: _lp_default(a), "int:0:16777215")
    E("HSTRP(defaults).as_bytes", lambda t, sn: L("hytera.pdu.hstrp:HSTRP")(L("hytera.pdu.hstrp:HSTRPPacketType").from_bytes(bytes([t & 0x3F])), sn=sn).as_bytes(), "int:0:63", "int:0:65535")
    E("HRNP(defaults).as_bytes", lambda op: L("hytera.pdu.hrnp:HRNP")(opcode=list(L("hytera.pdu.hrnp:HRNPOpcodes"))[op % len(list(L("hytera.pdu.hrnp:HRNPOpcodes")))]).as_bytes(), "int:0:7")
    E("RadioIP.from_bytes", lambda d: L("hytera.pdu.radio_ip:RadioIP").from_bytes(d), "bytes:4")
    # Motorola
    E("MBXML.from_bytes", lambda d: L("motorola.mbxml:MBXML").from_bytes(d), "vecm")
    E("MBXML.from_bytes(debug)", lambda d, dbg: _quiet(lambda: L("motorola.mbxml:MBXML").from_bytes(d, debug=dbg)), "vecm", "bool")
    for _nm, _path, _spec in (("HSTRP", "hytera.pdu.hstrp:HSTRP", "vecp:3242"), ("HRNP", "hytera.pdu.hrnp:HRNP", "vecp:7e"), ("HDAP", "hytera.pdu.hdap:HDAP", "vecp:02|08|09|11|82|88|89|91"),
                              ("TextMessagingService", "motorola.text_messaging_service:TextMessagingService", "vect"),
                              ("AutomaticRegistrationService", "motorola.automatic_registration_service:AutomaticRegistrationService", "veca"),
                              ("RadioIP", "hytera.pdu.radio_ip:RadioIP", "bytes:4")):
        E(f"{_nm}.from_bytes(endian)", (lambda p: lambda d, le: L(p).from_bytes(d, endian="little" if le else "big"))(_path), _spec, "bool")
    # direct construction with the Union[int, bitarray] / Union[bytes, bitarray] parameters given as caller-owned bitarrays
    for _nm, _mod, _n in (("Rate12Data", "etsi.layer2.pdu.rate12_data", (10, 6)), ("Rate34Data", "etsi.layer2.pdu.rate34_data", (16, 12)), ("Rate1Data", "etsi.layer2.pdu.rate1_data", (22, 18))):
        E(f"{_nm}(bitarray dbsn, crc9)", (lambda m, n, nn: lambda data, dbsn, crc9, last: _rate_ctor(m, n, nn, data, dbsn, crc9, last))(_mod, _nm, _n),
          "bits:176", "bits:7", "bits:9", "bool")
    E("ShortLinkControl(bitarray fields)", lambda crc, a1, a2: _slc_ctor(crc, a1, a2), "bits:8", "bits:8", "bits:8")
    E("DataHeader(bitarray crc)", lambda crc, a: _dh_ctor(crc, a), "bits:16", "int:0:127")
    E("DataHeader(bitarray crc: right value, mask variants)", lambda v, a: _dh_ctor_check_variants(v, a), "int:0:15", "int:0:127")
    E("MBXML.from_bytes->as_bytes", lambda d: [L("motorola.mbxml:MBXML").as_bytes(x) for x in L("motorola.mbxml:MBXML").from_bytes(d)], "vecm")
    E("MBXML.write_uintvar", lambda a: L("motorola.mbxml:MBXML").write_uintvar(a), "int:0:4294967295")
    E("MBXML.read_uintvar", lambda d: L("motorola.mbxml:MBXML").read_uintvar(d, 0), "bytes:1-6")
    E("MBXML.write_sintvar", lambda a: L("motorola.mbxml:MBXML").write_sintvar(a - (1 << 31)), "int:1:4294967295")
    E("MBXML.write_infotime", lambda a: L("motorola.mbxml:MBXML").write_infotime("20%02d%02d%02d%02d%02d%02d" % (a % 100, a % 12 + 1, a % 28 + 1, a % 24, a % 60, a % 59)), "int:0:100000")
    E("MBXML.write_latitude", lambda a: L("motorola.mbxml:MBXML").write_latitude((a - 9000) / 100.0), "int:0:18000")
    E("LRRP.get_token", lambda a: _lrrp_token(a), "int:0:400")
    E("TextMessagingService.from_bytes", lambda d: L("motorola.text_messaging_service:TextMessagingService").from_bytes(d), "vect")
    E("AutomaticRegistrationService.from_bytes", lambda d: L("motorola.automatic_registration_service:AutomaticRegistrationService").from_bytes(d), "veca")
    # constructors with default arguments, generically: parse, then build the same class again from the parsed attributes with a seeded subset
    # of the optional parameters left to their defaults
    for _nm, _path, _spec in (("DataHeader", "etsi.layer2.pdu.data_header:DataHeader", "pdu:dh"), ("CSBK", "etsi.layer2.pdu.csbk:CSBK", "pdu:csbk"),
                              ("FullLinkControl", "etsi.layer2.pdu.full_link_control:FullLinkControl", "pdu:flc"), ("PIHeader", "etsi.layer2.pdu.pi_header:PIHeader", "pdu:pi"),
                              ("ShortLinkControl", "etsi.layer2.pdu.short_link_control:ShortLinkControl", "pdu:slc"), ("SlotType", "etsi.layer2.pdu.slot_type:SlotType", "bits:20"),
                              ("UDPIPv4CompressedHeader", "etsi.layer3.pdu.udp_ipv4_compressed_header:UDPIPv4CompressedHeader", "bits:40-200")):
        E(f"{_nm}(from parsed attributes, seeded defaults)", (lambda p: lambda b, om: _reconstruct(L(p).from_bits(b), om))(_path), _spec, "int:0:65535")
    for _nm, _path, _spec in (("DataHeader", "etsi.layer2.pdu.data_header:DataHeader", "pdu:dh"), ("CSBK", "etsi.layer2.pdu.csbk:CSBK", "pdu:csbk"),
                              ("FullLinkControl", "etsi.layer2.pdu.full_link_control:FullLinkControl", "pdu:flc"), ("ShortLinkControl", "etsi.layer2.pdu.short_link_control:ShortLinkControl", "pdu:slc"),
                              ("SlotType", "etsi.layer2.pdu.slot_type:SlotType", "bits:20")):
        E(f"{_nm}: parse, change a field, serialise (with / without an earlier serialisation)",
          (lambda p: lambda b, k: _modify_after_parse(L(p).from_bits(b.copy()), L(p).from_bits(b.copy()), k))(_path), _spec, "int:0:63")
    for _nm, _mod in (("Rate12Data", "etsi.layer2.pdu.rate12_data"), ("Rate34Data", "etsi.layer2.pdu.rate34_data"), ("Rate1Data", "etsi.layer2.pdu.rate1_data")):
        E(f"{_nm}(from parsed attributes, seeded defaults)",
          (lambda m, n: lambda b, t, om: _reconstruct(L(f"{m}:{n}").from_bits_typed(b, list(L(f"{m}:{n}Types"))[t % len(list(L(f"{m}:{n}Types")))]), om))(_mod, _nm),
          "pdu:" + {"Rate12Data": "r12", "Rate34Data": "r34", "Rate1Data": "r1"}[_nm], "int:0:5", "int:0:65535")
    for _nm, _path, _spec in (("HSTRP", "hytera.pdu.hstrp:HSTRP", "vecp:3242"), ("HRNP", "hytera.pdu.hrnp:HRNP", "vecp:7e"), ("HDAP", "hytera.pdu.hdap:HDAP", "vecp:02|08|09|11|82|88|89|91")):
        E(f"{_nm}(from parsed attributes, seeded defaults)", (lambda p: lambda d, om: _reconstruct(L(p).from_bytes(d), om))(_path), _spec, "int:0:65535")
    E("LRRP(rebuilt from parsed parts via get_token)", lambda d, rq: _lrrp_rebuild(d, rq), "vecm", "bool")
    E("TalkerAliasDataFormat.decode", lambda f, d: list(L("etsi.layer3.elements.talker_alias_data_format:TalkerAliasDataFormat"))[f % 4].decode(d), "int:0:3", "bytes:0-8")
    E("TalkerAliasDataFormat.encode", lambda f, d: list(L("etsi.layer3.elements.talker_alias_data_format:TalkerAliasDataFormat"))[f % 4].encode(d.decode("latin")), "int:0:3", "bytes:0-8")
    E("parse_hytera_data", lambda d: type(L("utils.parsing:parse_hytera_data")(d)).__name__, "vec:1-200")
    E("try_parse_packet", lambda d: type(_quiet(lambda: L("utils.parsing:try_parse_packet")(d), err=True)).__name__, "vec:1-200")
    # stateful parts of the library, each on a FRESH object per call (so the pristine oracle applies): they drag the handlers' and the
    # tracker's code paths into the histories
    E("RRSDatagramProtocol(fresh).datagram_received", lambda d: _fresh_rrs(d), "vecp:3242")
    E("Terminal(fresh).process_incoming_burst x2", lambda a, b: _fresh_terminal([a, b]), "burst", "burst")
    E("RepeaterStorage(fresh).match_incoming+patch", lambda a: _fresh_storage(a), "int:0:65535")
    # utils
    U = "utils.bits_bytes"
    E("bytes_to_bits", lambda d: L(U + ":bytes_to_bits")(d), "bytesm:0-40")
    E("bits_to_bytes", lambda b: L(U + ":bits_to_bytes")(b), "bits:0-200")
    E("byteswap_bytes", lambda d: L(U + ":byteswap_bytes")(d), "bytesm:0-41")
    E("byteswap_bytearray", lambda d: L(U + ":byteswap_bytearray")(d), "bytearray:0-41")
    E("numpy_array_to_bitarray", lambda a: L(U + ":numpy_array_to_bitarray")(a), "np:1-40")
    E("bitarray_to_numpy_array", lambda b: L(U + ":bitarray_to_numpy_array")(b), "bits:1-40")
    E("numpy_array_to_int", lambda a: L(U + ":numpy_array_to_int")(a), "np:1-40")


class ArgumentObjectChanged(Exception):
    """raised by composite entries when a library call changed an object (or buffer) that was passed to it as an argument"""


class SerialisationDependsOnEarlierCall(Exception):
    """raised by the composite entry below when serialising an object gives another result because it was serialised before"""


def _modify_after_parse(obj_a, obj_b, pick):
    """an application that forwards a PDU with one field changed: parse, (variant A: serialise once, e.g. for a log line,) assign ONE integer attribute, let the
    object recompute its check value through its own public `calculate_*` method if it has one, serialise.  Variant A and variant B (no earlier serialisation)
    start from two parses of the same bits and must serialise to the same bits: an encode may not depend on an earlier encode of the same object"""
    ser = "as_bits" if hasattr(obj_a, "as_bits") else "as_bytes"
    getattr(obj_a, ser)()  # variant A only: the early serialisation
    names = sorted(k for k, v in vars(obj_b).items() if isinstance(v, int) and not isinstance(v, bool) and not k.startswith("_") and "crc" not in k.lower() and "parity" not in k.lower())
    if not names:
        raise LookupError("no integer field to change")
    name = names[pick % len(names)]
    outs = []
    for o in (obj_a, obj_b):
        setattr(o, name, getattr(o, name) ^ 1)
        for m in sorted(dir(type(o))):
            if m.startswith("calculate_") and callable(getattr(o, m, None)):
                try:
                    getattr(o, m)()
                except TypeError:
                    pass
        outs.append(canon(getattr(o, ser)()))
    if outs[0] != outs[1]:
        raise SerialisationDependsOnEarlierCall(f"{type(obj_a).__name__}.{name} changed after parsing: serialised {outs[0]} when the object had been serialised before, {outs[1]} when not")
    return [name, outs[1]]


RECON_NEVER_OMIT = set()  # (class name, parameter) pairs whose default is never the thing compared; empty since D17 was repaired
RECON_ALIASES = {"dpf": "data_packet_format", "flco": "full_link_control_opcode", "fid": "feature_set_id", "opcode": "specific_service"}


def _reconstruct(obj, omit):
    """a second object of the same class built through its constructor from the public attributes of a parsed one, leaving out a seeded subset
    of the constructor's OPTIONAL parameters (so their defaults apply): objects built with default arguments, for every PDU class at once"""
    import inspect

    if obj is None or isinstance(obj, (list, tuple)):
        raise LookupError("nothing to reconstruct")
    cls = type(obj)
    kw = {}
    bit = 0
    for name, p in list(inspect.signature(cls.__init__).parameters.items())[1:]:
        if p.kind in (p.VAR_POSITIONAL, p.VAR_KEYWORD):
            continue
        optional = p.default is not inspect.Parameter.empty
        attr = name if hasattr(obj, name) else RECON_ALIASES.get(name, name)
        if not hasattr(obj, attr):
            if optional:
                continue
            raise LookupError(f"{cls.__name__}: no attribute for required parameter {name}")
        if optional and (cls.__name__, name) not in RECON_NEVER_OMIT:
            bit += 1
            if (omit >> (bit - 1)) & 1:
                continue
        kw[name] = getattr(obj, attr)
    before = {k: core.dumps(canon(v)) for k, v in kw.items()}
    new = cls(**kw)
    for m in ("as_bits", "as_bytes"):
        if hasattr(new, m):
            try:
                getattr(new, m)()
            except Exception:
                pass
    changed = sorted(k for k, v in kw.items() if core.dumps(canon(v)) != before[k])
    if changed:
        # the constructor or a serialiser changed an object it was GIVEN (an address object, a buffer, an option list the caller still holds)
        raise ArgumentObjectChanged(f"{cls.__name__}: argument(s) {changed} changed by construction / serialisation")
    return [new, sorted(kw)]


def _staged(cls, stages, x):
    """a codec pipeline called stage by stage through its public static methods, the caller holding every intermediate buffer: each stage must leave the
    buffer it was given unchanged (it is the caller's), and the chain must give what it gives"""
    import copy

    out = []
    for st in stages:
        was = copy.deepcopy(x)
        y = getattr(cls, st)(x)
        if core.dumps(canon(x)) != core.dumps(canon(was)):
            raise ArgumentObjectChanged(f"{cls.__name__}.{st} changed the buffer it was given")
        out.append(y)
        x = y
    return out


def _lrrp_rebuild(d, is_request):
    """parse a document, then assemble a new one of the same type from its parts through the public builder (LRRP.get_token by element name, falling
    back to the element id), serialise it"""
    MB = L("motorola.mbxml:MBXML")
    LR = L("motorola.lrrp:LRRP")
    out = []
    for doc in MB.from_bytes(d):
        new = LR(document_id=doc.id)
        for p in doc.parts:
            try:
                t = new.get_token(name=p.name, value=p.value, attributes={}, is_request=is_request)
            except ModuleNotFoundError:
                t = new.get_token(name=p.token_id, value=p.value, attributes={}, is_request=not is_request)
            new.parts.append(t)
        out.append(new)
    return out


def _mutate_owned(x, depth=0, seen=None, done=None):
    """what an application does with an object a library call returned to it, using ONLY the library's own mutator methods (`add_*` / `set_*` found on
    the object and on the library objects it holds: HSTRPOptions.add_option, Burst.set_sequence_no, FirstHeader.set_has_more_headers, ...), with
    arguments made up from the parameter annotations.  The history stays a sequence of library calls (direct writes into returned containers would
    be application code, which the property does not speak about, see DESIGN 8.3).  Returns the number of mutator calls made"""
    import inspect
    import typing

    from bitarray import bitarray

    seen = set() if seen is None else seen
    done = [0] if done is None else done
    if depth > 3 or id(x) in seen or x is None or isinstance(x, (enum.Enum, type, str, bytes, int, float, bool)):
        return done[0]
    seen.add(id(x))
    if isinstance(x, (list, tuple)):
        for it in list(x)[:8]:
            _mutate_owned(it, depth + 1, seen, done)
        return done[0]
    if not hasattr(x, "__dict__") or not type(x).__module__.startswith("okdmr."):
        return done[0]

    def made_up(ann):
        if ann is inspect.Parameter.empty:
            return None
        if isinstance(ann, type) and issubclass(ann, enum.Enum):
            return list(ann)[-1]
        if ann is bytes:
            return b"\x00\x01\x86\x9f"
        if ann is bool:
            return True
        if ann is int:
            return 7
        if ann is str:
            return "x"
        if ann is bitarray:
            return bitarray("1010")
        return None

    for name in sorted(dir(type(x))):
        if not name.startswith(("add_", "set_")) or isinstance(inspect.getattr_static(type(x), name, None), (staticmethod, classmethod)):
            continue
        m = getattr(x, name, None)
        if not callable(m):
            continue
        try:
            hints = typing.get_type_hints(m)
        except Exception:
            hints = {}
        args, ok = [], True
        for pn, p in inspect.signature(m).parameters.items():
            v = made_up(hints.get(pn, p.annotation))
            if v is None:
                if p.default is inspect.Parameter.empty:
                    ok = False
                break
            args.append(v)
        if ok:
            try:
                m(*args)
                done[0] += 1
            except Exception:
                pass
    for it in list(vars(x).values()):
        _mutate_owned(it, depth + 1, seen, done)
    return done[0]


def _fresh_rrs(d):
    import asyncio

    sent = []

    class T(asyncio.DatagramTransport):
        def sendto(self, data, addr=None):
            sent.append(bytes(data).hex())

        def is_closing(self):
            return False

    h = L("protocols.hytera.rrs_datagram_protocol:RRSDatagramProtocol")(3002)
    h.connection_made(T())
    handled, _ = h.datagram_received(d, ("10.0.0.2", 3002))
    return [bool(handled), sent, h.hstrp_connected, sorted((k, v.name) for k, v in h.registry.items())]


def _fresh_terminal(bursts):
    import io
    import sys

    ev = []
    TOI = L("transmission.transmission_observer_interface:TransmissionObserverInterface")

    class O(TOI):
        def transmission_started(self, transmission_type):
            ev.append(("started", transmission_type.name))

        def data_transmission_ended(self, transmission_header, blocks):
            ev.append(("data_ended", len(blocks)))

        def voice_transmission_ended(self, voice_header, blocks):
            ev.append(("voice_ended", len(blocks)))

    t = L("transmission.terminal:Terminal")(77, [O()])
    out = []
    old = sys.stdout
    sys.stdout = io.StringIO()
    try:
        for b in bursts:
            o = t.process_incoming_burst(L("etsi.layer2.burst:Burst").from_bytes(b), 1)
            out.append([o.sequence_no, getattr(o.voice_burst, "name", None)])
    finally:
        sys.stdout = old
    return [ev, out, t.timeslots[1].transmission.type.name]


def _fresh_storage(a):
    st = L("storage.repeater_storage:RepeaterStorage")()
    addr = ("10.9.%d.%d" % (a >> 8, a & 255), 50000)
    r = st.match_incoming(addr, auto_create=True, patch={"callsign": "OK%d" % a, "k": a})
    r2 = st.match_incoming(addr)
    return [len(st), r is r2, r.callsign, r.attr("k"), r.dmr_id, r.address_in]


def _quiet(f, err=False):
    import io
    import sys

    old, olde = sys.stdout, sys.stderr
    sys.stdout = io.StringIO()
    if err:
        sys.stderr = io.StringIO()  # (the dispatcher prints the traceback of a parser that failed)
    try:
        return f()
    finally:
        sys.stdout, sys.stderr = old, olde


def _rate_ctor(mod, name, nbytes, data, dbsn, crc9, last):
    cls = L(f"{mod}:{name}")
    tps = L(f"{mod}:{name}Types")
    n = nbytes[1] if last else nbytes[0]
    return cls(data=data[: n * 8], packet_type=tps.ConfirmedLastBlock if last else tps.Confirmed, dbsn=dbsn, crc9=crc9, crc32=b"\x01\x02\x03\x04" if last else 0)


def _slc_ctor(crc, a1, a2):
    SLC = L("etsi.layer2.pdu.short_link_control:ShortLinkControl")
    A = L("etsi.layer3.elements.activity_id:ActivityID")
    return SLC(slco=L("etsi.layer2.elements.slcos:SLCOs").ActivityUpdate, crc_8bit=crc, ts1_activity_id=list(A)[1], ts2_activity_id=list(A)[2], ts1_address=a1, ts2_address=a2)


def _dh_ctor_check_variants(variant, a):
    """DataHeader built with a caller-owned bitarray check value that is the right one, or the right one with one of the standard's data-type masks (or
    a pair of them) applied on top -- the values a sender with the wrong mask produces; the caller's buffer must come back unchanged"""
    from bitarray.util import int2ba

    ms = [0x6969, 0xA5A5, 0xAAAA, 0xCCCC, 0x3333]
    vals = [0] + ms + sorted({x ^ y for x in ms for y in ms if x != y})
    right = _dh_ctor(None, a).crc
    crc = right ^ int2ba(vals[variant % len(vals)], length=16)
    was = crc.to01()
    h = _dh_ctor(crc, a)
    h.as_bits()
    if crc.to01() != was:
        raise ArgumentObjectChanged("DataHeader changed the caller's crc bitarray")
    return h


def _dh_ctor(crc, a):
    DH = L("etsi.layer2.pdu.data_header:DataHeader")
    return DH(dpf=L("etsi.layer2.elements.data_packet_formats:DataPacketFormats").DataPacketUnconfirmed, crc=crc, blocks_to_follow=a,
              sap_identifier=L("etsi.layer2.elements.sap_identifier:SAPIdentifier").ShortData, full_message_flag=L("etsi.layer2.elements.full_message_flag:FullMessageFlag")(1),
              llid_source=a, llid_destination=a + 1, fragment_sequence_number=0)


def _dh_default(a):
    DH = L("etsi.layer2.pdu.data_header:DataHeader")
    h = DH(dpf=L("etsi.layer2.elements.data_packet_formats:DataPacketFormats").ShortDataDefined, appended_blocks=a,
           sap_identifier=L("etsi.layer2.elements.sap_identifier:SAPIdentifier").ShortData,
           defined_data_format=L("etsi.layer2.elements.defined_data_formats:DefinedDataFormats").Binary, sarq=L("etsi.layer2.elements.sarq:SARQ")(0),
           full_message_flag=L("etsi.layer2.elements.full_message_flag:FullMessageFlag")(1))
    return h


def _rcp_default(a):
    RCP = L("hytera.pdu.radio_control_protocol:RadioControlProtocol")
    OP = L("hytera.pdu.radio_control_protocol:RCPOpcode")
    p = RCP(opcode=OP.StatusChangeNotificationRequest if a else OP.StatusChangeNotificationReply)
    return [p, sorted(repr(k) for k in p.status_change_settings)]


def _lp_default(a):
    LP = L("hytera.pdu.location_protocol:LocationProtocol")
    S = L("hytera.pdu.location_protocol:LocationProtocolSpecificService")
    return LP(opcode=S.StandardAnswer, request_id=a, radio_ip=L("hytera.pdu.radio_ip:RadioIP")(radio_id=a))


def _lrrp_token(a):
    LR = L("motorola.lrrp:LRRP")
    toks = LR.get_known_tokens(is_request=bool(a & 1))
    out = []
    for tbl in toks:
        ks = sorted(tbl)
        if ks:
            t = tbl[ks[a % len(ks)]]
            out.append([canon(getattr(t, "token_id", None)), canon(getattr(t, "name", None))])
    return out


# ------------------------------------------------------------------ argument generation (generation child; may call the library)


_harvest_cache = {}


def preload_cotenant():
    """template-side preparation (imports and file reading only, no library call)"""
    CHECKS["C19"].preload()
    harvest(core.repo_root())


def harvest(root):
    if root in _harvest_cache:
        return _harvest_cache[root]
    _harvest_cache[root] = _harvest(root)
    return _harvest_cache[root]


def _harvest(root):
    vecs = set()
    for fn in glob.glob(os.path.join(root, "okdmr", "tests", "**", "*.py"), recursive=True):
        try:
            txt = open(fn, errors="ignore").read()
        except OSError:
            continue
        for m in re.findall(r"[\"']([0-9a-fA-F]{8,400})[\"']", txt):
            if len(m) % 2 == 0:
                vecs.add(m.lower())
    return sorted(vecs)


class ArgGen:
    def __init__(self, r, vectors):
        self.r = r
        self.vec = vectors
        self.by_len = {}
        for v in vectors:
            self.by_len.setdefault(len(v) // 2, []).append(v)

    def length(self, spec):
        alts = spec.split("|")
        a = self.r.choice(alts)
        if "-" in a:
            lo, hi = a.split("-")
            return self.r.randint(int(lo), int(hi))
        return int(a)

    def bits(self, n):
        r = self.r
        x = r.random()
        if x < 0.15:
            return "0" * n
        if x < 0.25:
            return "1" * n
        return "".join(r.choice("01") for _ in range(n))

    def burst_error(self, n):
        """an error burst on the channel: a contiguous run of inverted bits, from a couple of bits up to the whole word"""
        r = self.r
        ln = r.choice([2, 3, 8, 16, n // 2, n, n])
        ln = max(1, min(n, ln))
        st = r.randrange(n - ln + 1)
        return st, ln

    def flip(self, s, k):
        s = list(s)
        if k and s and self.r.random() < 0.15:
            st, ln = self.burst_error(len(s))
            for i in range(st, st + ln):
                s[i] = "1" if s[i] == "0" else "0"
            return "".join(s)
        for _ in range(k):
            if s:
                i = self.r.randrange(len(s))
                s[i] = "1" if s[i] == "0" else "0"
        return "".join(s)

    def flip_hex(self, h, k):
        b = bytearray.fromhex(h)
        if b and self.r.random() < 0.04:
            # a datagram that arrives a few octets short, or with a few octets appended (lengths next to every length in the vectors)
            n = self.r.choice([1, 1, 2, 3])
            if self.r.random() < 0.6:
                return bytes(b[:-n]).hex() if len(b) > n else h
            return (bytes(b) + bytes(self.r.choice([0, 0, 0xFF, self.r.getrandbits(8)]) for _ in range(n))).hex()
        if k and b and self.r.random() < 0.15:
            st, ln = self.burst_error(len(b) * 8)
            for i in range(st, st + ln):
                b[i // 8] ^= 0x80 >> (i % 8)
            return b.hex()
        if b and self.r.random() < 0.06:
            # a field the sender left unset: a window of 1 - 8 octets all zero (or all ones), anywhere in the message
            ln = self.r.choice([1, 2, 3, 4, 5, 6, 8])
            st = self.r.randrange(max(1, len(b) - ln + 1))
            fill = self.r.choice([0, 0, 0, 0xFF])
            for i in range(st, min(len(b), st + ln)):
                b[i] = fill
            return b.hex()
        for _ in range(k):
            if b:
                i = self.r.randrange(len(b) * 8)
                b[i // 8] ^= 0x80 >> (i % 8)
        return b.hex()

    def mbxml_field_boundary(self, h):
        """a document from the vectors with ONE element's value set to a boundary value of its own type (octet strings all-zero / all-ones, numbers
        zero), found through the library's own parser and written back by its serialiser (generation phase: the argument is the resulting octets)"""
        try:
            MB = L("motorola.mbxml:MBXML")
            docs = MB.from_bytes(bytes.fromhex(h))
            doc = docs[self.r.randrange(len(docs))]
            parts = [p for p in doc.parts if isinstance(p.value, (bytes, int, float, tuple)) and not isinstance(p.value, bool)]
            p = self.r.choice(parts)
            fill = self.r.choice([0, 0, 0, 0xFF])

            def bound(v):
                if isinstance(v, bytes):
                    return bytes([fill]) * len(v)
                if isinstance(v, tuple):
                    return tuple(bound(x) for x in v)
                return type(v)(0)

            p.value = bound(p.value)
            return b"".join(MB.as_bytes(d) for d in docs).hex()
        except Exception:
            return None

    HDAP_OPCODES = {0x02: "hytera.pdu.radio_control_protocol:RCPOpcode", 0x08: "hytera.pdu.location_protocol:LocationProtocolSpecificService",
                    0x09: "hytera.pdu.text_message_protocol:TMPService", 0x11: "hytera.pdu.radio_registration_service:RRSTypes"}

    def hdap_other_opcode(self, h):
        """a captured HDAP message with its opcode replaced by another member of its service's own opcode list (the captures hold a handful of
        the opcodes each service defines): same header, same body octets, another message variant for the parser to dispatch on"""
        b = bytearray.fromhex(h)
        # HDAP travels alone or inside HSTRP (0x32 0x42 ...) / HRNP (0x7e ...): find the service octet by its place before a known opcode
        for off in range(0, min(len(b) - 3, 40)):
            path = self.HDAP_OPCODES.get(b[off] & 0x7F)
            if path is None:
                continue
            try:
                vals = [m.value if isinstance(m.value, int) else int.from_bytes(m.value, "big") for m in L(path)]
            except Exception:
                return None
            if max(vals) < 256:
                # services whose opcode enumeration is the low octet only (TMP 0x80 0xA1, RRS 0x00 0x03)
                if b[off + 2] in vals:
                    b[off + 2] = self.r.choice(vals)
                    return b.hex()
                continue
            cur_be, cur_le = int.from_bytes(b[off + 1:off + 3], "big"), int.from_bytes(b[off + 1:off + 3], "little")
            if cur_be in vals or cur_le in vals:
                order = "big" if cur_be in vals else "little"
                b[off + 1:off + 3] = self.r.choice(vals).to_bytes(2, order)
                return b.hex()
        return None

    def vecp(self, prefixes):
        c = [v for v in self.vec if any(v.startswith(p) for p in prefixes)]
        if not c or self.r.random() < 0.08:
            c = self.vec
        # message families first (by leading octet: service / protocol), then a vector of that family: a family with two captures gets as many draws
        # as one with fifty
        fam = {}
        for x in c:
            fam.setdefault(x[:2], []).append(x)
        v = self.r.choice(fam[self.r.choice(sorted(fam))])
        if self.r.random() < 0.35:
            v = self.hdap_other_opcode(v) or v
        return self.flip_hex(v, self.r.choice([0, 0, 0, 1, 2]))

    def args(self, specs):
        """arguments for one call; now and then octets travel in another object exporting the buffer protocol (what the bytes-typed
        parameters accept today: the oracles are differential, so a container the library refuses simply fails the same way twice)"""
        out = [self.gen(sp) for sp in specs]
        r = self.r
        for i, v in enumerate(out):
            if isinstance(v, dict) and set(v) == {"b"} and r.random() < 0.12:
                h = v["b"]
                if r.random() < 0.5:
                    out[i] = {"bya": h}  # a bytearray receive buffer is the commonest mutable way octets arrive
                    continue
                # (not a bitarray: entry points that slice their octets would read the undefined pad bits of sub-octet bitarray slices)
                out[i] = r.choice([{"b": h, "mv": 1}, {"bya": h}, {"npb": h}, {"arr": list(bytes.fromhex(h))}])
        return out

    def gen(self, spec):
        from bitarray import bitarray
        from bitarray.util import int2ba

        r = self.r
        kind, _, rest = spec.partition(":")
        if kind == "bits":
            d = {"ba": self.bits(self.length(rest))}
            if r.random() < 0.1:
                d["le"] = 1  # same bit sequence in a little-endian container (the oracle is differential, so any container is fair)
            return d
        if kind in ("bytes", "bytesm", "bytearray"):
            z = rest.endswith("z")
            n = self.length(rest.rstrip("z"))
            h = bytes(r.choice([0, 255, r.getrandbits(8), r.getrandbits(8)]) for _ in range(n)).hex()
            if z and r.random() < 0.5:
                h = r.choice(["000000", "969696", "999999"])
            if kind == "bytearray" or (kind == "bytesm" and r.random() < 0.3):
                return {"bya": h}
            if kind == "bytesm" and r.random() < 0.1:
                return {"b": h, "mv": 1}
            if kind == "bytesm" and r.random() < 0.08:
                return {"bab": h}  # checksum inputs are consumed whole: an octet-aligned bitarray exports the same octets
            return {"b": h}
        if kind == "int":
            lo, hi = rest.split(":")
            lo, hi = int(lo), int(hi)
            return r.choice([lo, hi, r.randint(lo, hi), r.randint(lo, hi)])
        if kind == "bool":
            return r.random() < 0.5
        if kind == "mask":
            m = L("etsi.layer2.elements.crc_masks:CrcMasks")
            return {"e": ["etsi.layer2.elements.crc_masks:CrcMasks", r.choice(list(m)).name]}
        if kind == "crc32opt":
            return r.choice([{"none": 1}, 0, r.getrandbits(32), {"b": bytes(r.getrandbits(8) for _ in range(4)).hex()}])
        if kind == "np":
            return {"np": [r.getrandbits(1) for _ in range(self.length(rest))]}
        if kind in ("cw", "cwnp"):
            s = self.codeword(rest)
            if kind == "cwnp":
                return {"np": [int(c) for c in s], "ro": 1} if r.random() < 0.2 else {"np": [int(c) for c in s]}
            if rest == "RS":
                return {"b": s}
            return {"ba": s}
        if kind == "pdu":
            return {"ba": self.flip(self.pdu(rest), r.choice([0, 0, 0, 1, 2]))}
        if kind == "burst":
            return {"b": self.flip_hex(self.burst(), r.choice([0, 0, 0, 1, 3]))}
        if kind == "burstbits":
            from bitarray import bitarray as _ba

            b = _ba()
            b.frombytes(bytes.fromhex(self.flip_hex(self.burst(), r.choice([0, 0, 1, 1, 2]))))
            return {"ba": b.to01()}
        if kind == "vec":
            c = (self.by_len.get(int(rest)) if rest.isdigit() else None) or self.vec  # "vec:72": vectors of that length; otherwise any vector
            return {"b": self.flip_hex(r.choice(c), r.choice([0, 0, 1, 2]))}
        if kind == "vecp" and rest == "3242" and r.random() < 0.5:
            # byte-level HSTRP grammar (the C17 peer encoder): option lists of 1-5 options, exact repeats included, optional payload
            from checks import c17

            pool = [(3, r.getrandbits(32).to_bytes(4, "big")), (3, b"\x00\x01\x86\x9f"), (4, b"\x01"), (4, b"\x02"), (1, b""), (5, b"\x07"), (6, b"\x01"), (7, b"\x00")]
            opts = [r.choice(pool) for _ in range(r.choice([1, 2, 3, 4, 5]))]
            if r.random() < 0.4 and len(opts) >= 2:
                opts.insert(r.randrange(len(opts) + 1), r.choice(opts))  # an exactly repeated option
            ob = b"".join(bytes([c | (0x80 if i < len(opts) - 1 else 0), len(d)]) + d for i, (c, d) in enumerate(opts))
            typ = r.choice([0x20, 0x20, 0x21, 0x24, 0x28, 0x30, 0x25, 0x29])
            if r.random() < 0.3:  # option-less control datagrams: connect, close, heartbeat, their acknowledgements, reject
                opts, ob = [], b""
                typ = r.choice([0x04, 0x05, 0x08, 0x09, 0x02, 0x01, 0x00, 0x10, 0x03])
            payload = r.choice([b"", c17.rrs_hdap(r.choice([1, 2, 3]), r.getrandbits(24), r.random() < 0.3), bytes.fromhex(r.choice(c17.HDAP_SAMPLES))])
            return {"b": self.flip_hex(c17.hstrp(typ, r.choice([0, 1, 0xFFFF, r.getrandbits(16)]), ob, payload, r.choice([0, 0, 1])).hex(), r.choice([0, 0, 0, 1]))}
        if kind == "vecp":
            return {"b": self.vecp(rest.split("|"))}
        if kind == "vecm":
            c = [v for v in self.vec if len(v) > 10 and int(v[:2], 16) in (4, 5, 6, 7, 8, 9, 10, 11, 12, 13, 14, 15, 16, 17, 18, 19, 20, 21, 22, 23, 24, 25, 26, 29)]
            if r.random() < 0.25:
                m = self.mbxml_field_boundary(r.choice(c or self.vec))
                if m is not None:
                    return {"b": m}
            return {"b": self.flip_hex(r.choice(c or self.vec), r.choice([0, 0, 0, 1]))}
        if kind == "vect" and r.random() < 0.6:
            # byte-level TMS grammar: | len(2) | first header | addr len | addr | optional headers | payload | with boundary sequence numbers
            hdr = r.choice([0x9F, 0x9F, 0x1F, 0x90, 0x10, 0x80, 0x00, 0xC0, 0x40, 0xDF, 0xA0])
            addr = r.choice([b"", b"", bytes(r.getrandbits(8) for _ in range(3)), b"1234"])
            rest = bytes([hdr, len(addr)]) + addr
            if hdr & 0x80:
                if hdr & 0x1F == 0x10:
                    rest += bytes([r.choice([0x00, 0x01, 0x02, 0x03, 0xFF])])
                else:
                    first = r.choice([0x00, 0x00, 0x15, 0x95, 0x1F, 0x9F, 0x80, 0x01])
                    rest += bytes([first])
                    if first & 0x80:
                        rest += bytes([r.choice([0x00, 0x20, 0x04, 0x64, 0x60, 0x24])])
            if hdr & 0x1F == 0x00 and not hdr & 0x10:
                rest += r.choice(["", "A", "Hello", "OK-DMR \u2713"]).encode("utf-16-le")
            h = (len(rest).to_bytes(2, "big") + rest).hex()
            return {"b": self.flip_hex(h, r.choice([0, 0, 0, 0, 1]))}
        if kind == "vect":
            c = [v for v in self.vec if v.startswith("00") and len(v) >= 12 and int(v[2:4], 16) == len(v) // 2 - 2]
            return {"b": self.flip_hex(r.choice(c or self.vec), r.choice([0, 0, 0, 1]))}
        if kind == "veca":
            c = [v for v in self.vec if v.startswith("00") and len(v) >= 8 and int(v[2:4], 16) == len(v) // 2 - 2]
            return {"b": self.flip_hex(r.choice(c or self.vec), r.choice([0, 0, 0, 1]))}
        raise KeyError(spec)

    def codeword(self, code):
        from bitarray import bitarray

        r = self.r
        k = r.choice([0, 0, 0, 1, 1, 2])
        if code == "BPTC":
            return self.flip(L("etsi.fec.bptc_196_96:BPTC19696").encode(bitarray(self.bits(96))).to01(), k)
        if code == "Trellis":
            return self.flip(L("etsi.fec.trellis:Trellis34").encode(bitarray(self.bits(144))).to01(), r.choice([0, 0, 0, 0, 1]))
        if code == "RS":
            w = L("etsi.fec.reed_solomon_12_9_4:ReedSolomon1294").generate(bytes(r.getrandbits(8) for _ in range(9)), bytes.fromhex(r.choice(["000000", "969696", "999999"])))
            return self.flip_hex(w.hex(), r.choice([0, 0, 1]))
        if code.startswith("VBPTC"):
            mod, kk = {"VBPTC12873": ("etsi.fec.vbptc_128_72", 72), "VBPTC6828": ("etsi.fec.vbptc_68_28", 28), "VBPTC3211": ("etsi.fec.vbptc_32_11", 11)}[code]
            return self.flip(L(f"{mod}:{code}").encode(bitarray(self.bits(kk))).to01(), r.choice([0, 0, 1]))
        mod = {"Hamming743": "etsi.fec.hamming_7_4_3", "Hamming1393": "etsi.fec.hamming_13_9_3", "Hamming15113": "etsi.fec.hamming_15_11_3", "Hamming16114": "etsi.fec.hamming_16_11_4",
               "Hamming17123": "etsi.fec.hamming_17_12_3", "Golay2087": "etsi.fec.golay_20_8_7", "QuadraticResidue1676": "etsi.fec.quadratic_residue_16_7_6"}[code]
        kk = {"Hamming743": 4, "Hamming1393": 9, "Hamming15113": 11, "Hamming16114": 11, "Hamming17123": 12, "Golay2087": 8, "QuadraticResidue1676": 7}[code]
        cw = "".join(str(int(x)) for x in L(f"{mod}:{code}").generate(bitarray(self.bits(kk))).tolist())
        return self.flip(cw, k)

    def pdu(self, kind):
        from checks import air, c04

        air._imports()
        r = self.r
        if kind == "dh":
            return c04.make(r.choice(c04.DH), r)
        if kind == "pi":
            return c04.make("pi", r)
        if kind == "slc":
            return c04.make(r.choice(["slc-null", "slc-act"]), r)
        if kind in ("r12", "r34", "r1"):
            return c04.make(kind + r.choice(["c", "cl"]), r)
        if kind == "csbk":
            # preamble, or any other opcode the parser implements (checks/air.py)
            return air.csbk_pdu(r, pre=r.random() < 0.35, btf=r.randrange(256)).as_bits().to01()
        if kind == "flc":
            # the whole opcode list (group / unit-to-unit voice, talker alias header and blocks, GPS info), as voice LC header or as terminator
            return air.lc_bits(r, r.choice([air.DataTypes.VoiceLCHeader, air.DataTypes.VoiceLCHeader, air.DataTypes.TerminatorWithLC])).to01()
        raise KeyError(kind)

    def burst(self):
        from checks import air

        air._imports()
        r = self.r
        cc = r.randrange(16)
        c = r.choice(["vh", "term", "vs", "ve", "hdr", "pre", "csbk", "rate", "vec"])
        if c == "vec" and self.by_len.get(33):
            return r.choice(self.by_len[33])
        f = {"vh": lambda: air.lc_burst(r, air.DataTypes.VoiceLCHeader, cc), "term": lambda: air.lc_burst(r, air.DataTypes.TerminatorWithLC, cc),
             "vs": lambda: air.voice_burst(r, sync=r.choice(air.VOICE_SYNCS)), "ve": lambda: air.voice_burst(r, cc=cc, lcss=r.randrange(4)),
             "hdr": lambda: air.hdr_burst(r, cc), "pre": lambda: air.csbk_burst(r, cc, True), "csbk": lambda: air.csbk_burst(r, cc, False),
             "rate": lambda: air.rate_burst(r, cc)}.get(c, lambda: air.rate_burst(r, cc))
        return f().hex()


# ------------------------------------------------------------------ co-tenant activity for the other simulations


def gen_cotenant(r, n=None, prefer=None):
    """a few calls on other parts of the library, to be executed in the same process before/inside another check's simulation:
    what the rest of an application does with the library while the handlers / the tracker run"""
    _build_registry()
    g = ArgGen(r, harvest(core.repo_root()))
    names = sorted(ENTRIES)
    pref = [x for x in names if prefer and any(p in x for p in prefer)]
    ops = []
    for _ in range(n if n is not None else r.choice([3, 8, 20])):
        name = r.choice(pref) if pref and r.random() < 0.7 else r.choice(names)
        try:
            ops.append({"entry": name, "args": g.args(ENTRIES[name]["specs"])})
        except Exception:
            pass
    return ops


def run_cotenant(ops):
    _build_registry()
    for op in ops or []:
        ent = ENTRIES.get(op["entry"])
        if ent is not None:
            outcome_of(ent["fn"], [mat(x) for x in op["args"]])
    return len(ops or [])


# ------------------------------------------------------------------ a genuinely fresh interpreter under another PYTHONHASHSEED

SERVER_CODE = r"""
import os, pickle, struct, sys
sys.path.insert(0, os.environ["VERIF_DIR"])
from dsim import core
core.use_repo()
from checks import c19
c19.CHECKS["C19"].preload()
inp, out = sys.stdin.buffer, sys.stdout.buffer
def rd(f, n):
    b = b""
    while len(b) < n:
        c = f.read(n - len(b))
        if not c:
            os._exit(0)
        b += c
    return b
while True:
    n = struct.unpack("<I", rd(inp, 4))[0]
    req = pickle.loads(rd(inp, n))
    r, w = os.pipe()
    pid = os.fork()
    if pid == 0:
        os.close(r)
        os.dup2(os.open(os.devnull, os.O_WRONLY), 1)  # whatever the library prints must not land in the reply stream of this server
        try:
            res = c19._alone(req)
        except BaseException as e:
            res = ["harness-exception", type(e).__name__]
        data = pickle.dumps(res)
        os.write(w, struct.pack("<I", len(data)) + data)
        os._exit(0)
    os.close(w)
    f = os.fdopen(r, "rb")
    hdr = f.read(4)
    data = f.read(struct.unpack("<I", hdr)[0]) if len(hdr) == 4 else pickle.dumps(["crash"])
    f.close()
    os.waitpid(pid, 0)
    out.write(struct.pack("<I", len(data)) + data)
    out.flush()
"""


class FreshServer:
    """python -c interpreter started with another PYTHONHASHSEED; it imports the library and evaluates each request ALONE in a child it forks"""

    def __init__(self, hashseed="4242"):
        import subprocess
        import sys

        env = dict(os.environ, PYTHONHASHSEED=hashseed, VERIF_DIR=os.path.dirname(os.path.dirname(os.path.abspath(__file__))), PYTHONDONTWRITEBYTECODE="1")
        # same interpreter flags as this process (the -O pass starts its server under -O too): only the hash seed differs
        self.p = subprocess.Popen([sys.executable] + (["-O"] if sys.flags.optimize else []) + ["-c", SERVER_CODE], env=env, stdin=subprocess.PIPE, stdout=subprocess.PIPE, stderr=subprocess.DEVNULL)

    def call(self, name, args):
        import pickle
        import struct

        data = pickle.dumps((name, args))
        self.p.stdin.write(struct.pack("<I", len(data)) + data)
        self.p.stdin.flush()
        hdr = self.p.stdout.read(4)
        if len(hdr) < 4:
            return ["server-gone"]
        return pickle.loads(self.p.stdout.read(struct.unpack("<I", hdr)[0]))


_server = {}


def fresh_server():
    """one server per (worker / driver) process, started lazily by that process, inherited by the run children it forks"""
    pid = os.getpid()
    if _server.get("owner") is None:
        _server["owner"] = pid
        _server["srv"] = FreshServer()
    return _server["srv"]


# ------------------------------------------------------------------ the check


def _alone(a):
    """one call, alone, in a pristine child, under the ORACLE clock/entropy"""
    name, args = a
    _build_registry()
    Seams(978_307_200.0, 0xA11CE)  # 2001-01-01
    ent = ENTRIES[name]
    return outcome_of(ent["fn"], [mat(x) for x in args])


def snapshot(args):
    return [canon(a) for a in args]


class C19(Check):
    pid = "C19"
    reach_dirs = ("etsi", "hytera", "motorola", "utils")  # "the public codec entry points (CRC, FEC, PDU, burst, Hytera, Motorola)": reach is reported for all of them
    level = "exploration"
    split_generate = True
    chunk = 6
    run_timeout = 300.0
    has_clock = True
    sim_time_note = "simulated wall clock differs between history process (2041, jumps between calls) and oracle process (2001); not summed"
    rule = ("seeded histories of 10-120 calls by 2-4 logical clients over ~110 public codec entry points (CRC engines and front ends, block codes, BPTC/VBPTC/"
            "trellis/RS, PDU parsers and default-argument constructors, Burst, Hytera HDAP/HRNP/HSTRP/IPSC, Motorola MBXML/LRRP/TMS/ARS, bits_bytes helpers), "
            "interleaved call by call by the seeded scheduler in one process, with clock jumps and entropy reseeds between calls; each outcome compared with the "
            "same call evaluated alone in a child forked from the pristine template under another clock/entropy; argument buffers compared before/after. "
            "distinct_nontrivial = distinct ordered pairs (earlier entry point, later entry point) executed in one history with the later one checked")
    real_components = ["every okdmr.dmrlib codec entry point in the registry (Appendix C of DESIGN.md)"]
    stub_components = ["clock seams (datetime/date/time) and entropy seams (random/secrets/os.urandom/uuid) installed over the library's bound names",
                       "pristine-template fork oracle", "argument pools (vectors harvested from the repository's tests, library-built PDUs/codewords, bit flips)"]
    assumptions = ["pristine template (library imported, no call made) stands for a fresh interpreter; validated on a sample with a really fresh interpreter in selftest",
                   "in-place Hamming repair (check_and_correct) is exempt from the argument-buffer comparison only"]

    def preload(self):
        _build_registry()
        from checks import air, c04  # noqa

        air.preload()
        for p in ("etsi.crc.crc:BitCrcCalculator", "etsi.crc.crc8:CRC8", "etsi.crc.crc9:CRC9", "etsi.crc.crc16:CRC16", "etsi.crc.crc32:CRC32", "etsi.fec.five_bit_checksum:FiveBitChecksum",
                  "etsi.fec.vbptc_128_72:VBPTC12873", "etsi.fec.vbptc_68_28:VBPTC6828", "etsi.fec.vbptc_32_11:VBPTC3211", "hytera.pdu.hrnp:HRNP", "hytera.pdu.hstrp:HSTRP",
                  "hytera.pdu.radio_control_protocol:RadioControlProtocol", "hytera.pdu.location_protocol:LocationProtocol", "hytera.pdu.text_message_protocol:TextMessageProtocol",
                  "hytera.hytera_ipsc:HyteraIPSC", "motorola.mbxml:MBXML", "motorola.lrrp:LRRP", "motorola.arrp:ARRP", "motorola.text_messaging_service:TextMessagingService",
                  "motorola.automatic_registration_service:AutomaticRegistrationService", "etsi.layer3.elements.service_options:ServiceOptions",
                  "etsi.layer3.pdu.udp_ipv4_compressed_header:UDPIPv4CompressedHeader", "etsi.layer2.pdu.pi_header:PIHeader", "etsi.layer2.pdu.short_link_control:ShortLinkControl",
                  "etsi.layer2.pdu.full_link_control:FullLinkControl", "etsi.fec.hamming_7_4_3:Hamming743", "etsi.fec.hamming_17_12_3:Hamming17123", "etsi.fec.hamming_16_11_4:Hamming16114",
                  "protocols.hytera.rrs_datagram_protocol:RRSDatagramProtocol", "transmission.terminal:Terminal", "storage.repeater_storage:RepeaterStorage"):
            try:
                L(p)
            except Exception:
                pass

    def worker_init(self):
        fresh_server()

    def arm_groups(self, tier):
        # group 0: processes that imported only third-party dependencies, none of the library's own modules: every call imports lazily what it
        # needs, so "alone" (nothing imported before) vs "after other calls" vs the fresh interpreter (everything imported) differ in import
        # history -- a result that depends on which modules happened to be imported earlier shows up as a difference
        return [{"min-imports"}, {"history", "scale", "typesweep"}]

    def preload_group(self, i):
        if i == 0:
            _build_registry()
            harvest(core.repo_root())
            import array, bitarray, bitarray.util, kaitaistruct, numpy, pkgutil  # noqa: third-party / stdlib only
            import okdmr.kaitai as _k

            for m in pkgutil.walk_packages(_k.__path__, "okdmr.kaitai."):
                try:
                    importlib.import_module(m.name)
                except Exception:
                    pass
            for mod in ("scapy.layers.inet", "puresnmp", "asyncio", "uuid", "secrets", "socket"):
                try:
                    importlib.import_module(mod)
                except Exception:
                    pass
        else:
            self.preload()

    def budget(self, tier):
        return 420.0 if tier == "quick" else 2700.0

    def arms(self, tier):
        _build_registry()
        ne = len(ENTRIES)
        nb = len(self._octet_entries())
        # scale: one run per entry point (x4 in thorough); typesweep: one run per (entry point with an octet-string argument, header position 0..3)
        return [("min-imports", 300 if tier == "quick" else 4000), ("history", 700 if tier == "quick" else 12000),
                ("scale", ne if tier == "quick" else 4 * ne), ("typesweep", 4 * nb if tier == "quick" else 16 * nb)]

    @staticmethod
    def _octet_entries():
        """entry points whose first argument is an octet string taken from message vectors / grammars (typed messages: the leading octets
        select a document type, service, opcode or packet type)"""
        _build_registry()
        return sorted(n for n, e in ENTRIES.items() if e["specs"] and e["specs"][0].split(":")[0] in ("vec", "vecp", "vecm", "vect", "veca", "burst"))

    def generate(self, arm, index, streams, tier):
        _build_registry()
        w, k, s, f = streams["work"], streams["knobs"], streams["sched"], streams["fault"]
        g = ArgGen(w, harvest(core.repo_root()))
        names = sorted(ENTRIES)
        if arm == "scale":
            # at scale: several hundred / thousand DISTINCT calls of ONE entry point (more than any bounded memo, ring or table holds), then the
            # earliest calls again; every entry point gets such a run in every batch
            name = names[index % len(names)]
            n = k.choice([280, 300, 560]) if tier == "quick" else k.choice([300, 1100, 1100, 2200])
            ops, seen = [], set()
            for _ in range(n):
                try:
                    args = g.args(ENTRIES[name]["specs"])
                except Exception:
                    continue
                key = core.dumps(args)
                if key in seen and len(seen) > 8:
                    continue
                seen.add(key)
                ops.append({"client": 0, "entry": name, "args": args})
            ops += [dict(o) for o in ops[:12]]
            return {"knobs": {"clients": 1, "scale": len(seen)}, "ops": ops}
        if arm == "typesweep":
            # order of first use of message types: one message vector, one of its four leading octets swept through all 256 values in a seeded
            # order (document type, service, opcode, packet type, version ... live there), each variant parsed once, the first ones again at the end
            oe = self._octet_entries()
            name = oe[(index // 4) % len(oe)]
            pos = index % 4
            base = None
            for _ in range(20):
                try:
                    args = g.gen(ENTRIES[name]["specs"][0])
                    rest = [g.gen(sp) for sp in ENTRIES[name]["specs"][1:]]
                except Exception:
                    continue
                if isinstance(args, dict) and set(args) == {"b"} and len(args["b"]) // 2 > pos:
                    base = bytes.fromhex(args["b"])
                    break
            if base is None:
                return {"knobs": {"clients": 1}, "ops": []}
            order = list(range(256))
            k.shuffle(order)
            ops = [{"client": 0, "entry": name, "args": [{"b": (base[:pos] + bytes([x]) + base[pos + 1:]).hex()}] + rest} for x in order]
            ops += [dict(o) for o in ops[:16]]
            return {"knobs": {"clients": 1, "sweep_pos": pos}, "ops": ops}
        # swarm: each run concentrates on a random subset of entry points so that pairs repeat within a history
        subset = k.sample(names, k.choice([1, 1, 2, 3, 5, 8, 16, 40]) if arm != "min-imports" else k.choice([1, 2, 3, 5]))
        nclients = k.choice([2, 2, 3, 4])
        n = k.choice([10, 20, 40, 80, 120]) if arm != "min-imports" else k.choice([6, 12, 25])
        scale = arm != "min-imports" and k.random() < 0.025
        if scale:
            # scale runs: hundreds of DISTINCT calls on one or two entry points (more than any bounded memo holds), then the first calls again
            subset = k.sample(names, k.choice([1, 1, 2]))
            n = k.choice([300, 560])
        ops = []
        rb_rate = k.choice([0.0, 0.1, 0.1, 0.6])  # how often this run's callers re-use their argument buffer objects
        own_rate = k.choice([0.0, 0.05, 0.05, 0.3])  # how often they change, in place, what a call handed back to them (it is theirs)
        pool = []  # recent (entry, args) so that the same call is repeated after other calls
        for _ in range(n):
            if pool and w.random() < (0.25 if not scale else 0.03):
                name, args = w.choice(pool)
            else:
                name = w.choice(subset)
                try:
                    args = g.args(ENTRIES[name]["specs"])
                except Exception:
                    continue
                pool.append((name, args))
                del pool[:-12]
            op = {"client": s.randrange(nclients), "entry": name, "args": args}
            if f.random() < 0.1:
                op["clock_jump"] = f.choice([-86400.0 * 365 * 30, 3600.0, 86400.0 * 366, -1.0])
            if f.random() < 0.1:
                op["entropy_reseed"] = f.getrandbits(32)
            if f.random() < rb_rate:
                op["rb"] = 1
            elif f.random() < own_rate:
                op["own"] = 1
            ops.append(op)
            sib = self._checksum_sibling(args, w) if w.random() < 0.12 else None
            if sib is not None:
                # the same call right afterwards on a message that differs from the previous one only by a checksum-preserving change (two
                # 16-bit words of the body exchanged: additive checksums, ones-complement sums and length fields all stay the same)
                ops.append({"client": op["client"], "entry": name, "args": sib})
        if scale:
            ops += [dict(o) for o in ops[:10]]
        return {"knobs": {"clients": nclients}, "ops": ops}

    @staticmethod
    def _checksum_sibling(args, w):
        if not args or not isinstance(args[0], dict) or not ({"b", "bya"} & set(args[0])) or "mv" in args[0]:
            return None
        key = "b" if "b" in args[0] else "bya"
        b = bytearray.fromhex(args[0][key])
        if len(b) < 26:
            return None
        # two distinct aligned 16-bit words inside the body (past the 17 octets of HRNP + HDAP headers, before the trailing checksum / end octets)
        lo, hi = 18, len(b) - 4
        cand = [i for i in range(lo, hi, 2)]
        for _ in range(8):
            i, j = w.sample(cand, 2) if len(cand) >= 2 else (None, None)
            if i is None:
                return None
            if b[i:i + 2] != b[j:j + 2]:
                b[i:i + 2], b[j:j + 2] = b[j:j + 2], b[i:i + 2]
                return [dict(args[0], **{key: bytes(b).hex()})] + list(args[1:])
        return None

    def sample(self, case):
        return {"knobs": case["knobs"], "n_ops": len(case["ops"]), "ops": [{"client": o["client"], "entry": o["entry"], "args": o["args"]} for o in case["ops"][:5]]}

    def simplify(self, case):
        for i, o in enumerate(case["ops"]):
            if "clock_jump" in o or "entropy_reseed" in o:
                ops = list(case["ops"])
                ops[i] = {kk: v for kk, v in o.items() if kk not in ("clock_jump", "entropy_reseed")}
                yield dict(case, ops=ops)

    def execute(self, case):
        import random as _random

        _build_registry()
        res = core.RunResult()
        log = core.EventLog()
        # phase 1 (this process is still pristine): every distinct call evaluated alone in its own pristine child
        alone = {}
        srv = _server.get("srv")
        for oi, op in enumerate(case["ops"]):
            key = core.dumps([op["entry"], op["args"]])
            if key not in alone:
                if op["entry"] not in ENTRIES:
                    alone[key] = ["unknown-entry"]
                    continue
                try:
                    alone[key] = pristine.run_in_child(_alone, (op["entry"], op["args"]), 60)
                except pristine.ChildTimeout:
                    alone[key] = ["timeout"]
                except pristine.ChildCrash:
                    alone[key] = ["crash"]
                if srv is not None and not (case.get("env") or {}).get("numpy") and alone[key] not in (["timeout"], ["crash"]) and (case.get("arm") == "min-imports" or core.derive("fresh", key) % 5 < 3):
                    # (not in runs whose process-wide numpy settings were changed: the server runs with numpy's defaults, and what a call does
                    # with an out-of-range numpy scalar under seterr(all="raise") is the application's choice, not a dependence on history)
                    # (every call of the min-imports group, a seeded 60 % sample otherwise)
                    # the same call, alone, in a genuinely fresh interpreter started with another PYTHONHASHSEED
                    other = srv.call(op["entry"], op["args"])
                    res.probe("fresh_interpreter_other_hashseed_evaluations")
                    if other and other[0] in ("server-gone", "crash", "harness-exception"):
                        res.probe("fresh_interpreter_" + other[0])
                    elif other != alone[key]:
                        res.violate("C19.result-depends-on-interpreter-context", op["entry"], f"{op['entry']}({core.dumps(op['args'])[:160]}) evaluated alone gives {core.dumps(alone[key])[:200]} "
                                    f"in a child of this process (PYTHONHASHSEED={os.environ.get('PYTHONHASHSEED')}, library modules imported before the call: "
                                    f"{sum(1 for m in __import__('sys').modules if m.startswith('okdmr.dmrlib.'))}) and {core.dumps(other)[:200]} in a fresh interpreter "
                                    f"(PYTHONHASHSEED=4242, whole library imported): the result depends on the hash seed or on what was imported earlier", at=oi)
                        res["viol"][-1]["case"] = {"property": "C19", "knobs": case.get("knobs", {}), "ops": [op], "arm": case.get("arm"), "run": case.get("run")}
        # phase 2: the history, in this one process, under the HISTORY clock/entropy
        seams = Seams(2_240_000_000.0, 0xB0B)  # 2040-12
        prev_entries = []
        held = []
        bufs = {}
        held_args = {}
        for i, op in enumerate(case["ops"]):
            name = op["entry"]
            if name not in ENTRIES:
                continue
            if "clock_jump" in op:
                seams.t += op["clock_jump"]
                res.fault("clock_jump")
            if "entropy_reseed" in op:
                _random.seed(op["entropy_reseed"])
                res.fault("entropy_reseed")
            ent = ENTRIES[name]
            args = [mat(x) for x in op["args"]]
            if op.get("rb"):
                # a caller that keeps ONE buffer object per parameter and overwrites it in place for every call (same object identity, new content)
                import numpy as _np
                from array import array as _array
                from bitarray import bitarray as _ba

                for ai, a in enumerate(args):
                    if isinstance(a, (_ba, bytearray, _np.ndarray, _array)) and not (isinstance(a, _np.ndarray) and not a.flags.writeable):
                        en = a.endian if isinstance(a, _ba) else None
                        bk = (name, ai, type(a).__name__, len(a), str(getattr(a, "dtype", "")), en() if callable(en) else en)
                        if bk in bufs:
                            b0 = bufs[bk]
                            # what the library handed back for an earlier call with this very buffer may be, or refer to, the buffer (objects keep
                            # the bitarrays they were built from): the caller's own overwrite is no library defect -- those results are no longer watched
                            held[:] = [h for h in held if not any(x is b0 for x in held_args.get(h[0], ()))]
                            b0[:] = a
                            args[ai] = b0
                            res.fault("argument_buffer_object_reused")
                        else:
                            bufs[bk] = a
            before = snapshot(args)
            r0 = seams.reads
            kept = []
            got = outcome_of(ent["fn"], args, kept)
            own_it = bool(kept and op.get("own") and got[0] == "ok")
            if own_it:
                pass  # (changed by its owner further down, after the argument buffers were compared; not watched by the held-results rule)
            elif kept and len(held) < 40 and got[0] == "ok":
                held_args[i] = list(args)
                held.append((i, name, kept[0], core.dumps(canon(kept[0]))))  # the caller keeps what it got; it is looked at again after the history
            if seams.reads != r0:
                res.probe("clock_or_entropy_read_during_codec_call")
            res["evals"] += 1
            want = alone[core.dumps([name, op["args"]])]
            log.add(i, op["client"], name, core.dumps(got)[:200])
            if want in (["timeout"], ["crash"]):
                res.probe("pristine_evaluation_" + want[0])
            elif got != want:
                earlier = sorted(set(prev_entries))[-6:]
                res.violate("C19.history-dependent-result", name, f"call #{i} {name}({core.dumps(op['args'])[:160]}) returned {core.dumps(got)[:220]} in this history, "
                            f"but {core.dumps(want)[:220]} when evaluated alone in a pristine process (earlier entry points in this process: {len(set(prev_entries))})", at=i)
            if got[:2] == ["raised", "SerialisationDependsOnEarlierCall"]:
                res.violate("C19.history-dependent-result", name, f"call #{i} {name}({core.dumps(op['args'])[:160]}): serialising the object after a field change gives another result when "
                            f"the object had been serialised once before (reported by the composite entry point itself)", at=i)
            if got[:2] == ["raised", "ArgumentObjectChanged"]:
                res.violate("C19.argument-buffer-modified", name, f"call #{i} {name}({core.dumps(op['args'])[:160]}): a library call changed an object it was given as an argument "
                            f"(reported by the composite entry point itself)", at=i)
            if not ent["exempt"]:
                after = snapshot(args)
                if after != before:
                    res.violate("C19.argument-buffer-modified", name, f"call #{i} {name} changed its argument: {core.dumps(before)[:160]} -> {core.dumps(after)[:160]}", at=i)
            if own_it:
                # the caller goes on working with what it was handed, through the library's own mutators (options added, sequence numbers set ...):
                # nothing a later call returns may depend on that
                try:
                    nmut = _mutate_owned(kept[0])
                except Exception:
                    nmut = 0
                if nmut:
                    res.fault("returned_object_changed_through_library_mutators", nmut)
            for p in set(prev_entries):
                res["cov"].add(p + " -> " + name)
            if prev_entries and prev_entries[-1] == name:
                res.probe("same_entry_point_twice_in_a_row")
            prev_entries.append(name)
            if len(res["viol"]) >= 3:
                break
        # results held by the caller must still be what they were when they were returned (no later library call may reach into them)
        for i, name, obj, was in held:
            try:
                now = core.dumps(canon(obj))
            except Exception as e:
                now = "canon raised " + type(e).__name__
            if now != was and not res["viol"]:
                res.violate("C19.earlier-result-changed-later", name, f"the value returned by call #{i} {name} was {was[:160]} when returned and is {now[:160]} after the rest of the "
                            f"history: a later library call modified an object the caller was given earlier", at=len(case["ops"]) - 1)
                break
        res.probe("results_held_to_the_end", len(held))
        res["ops"] = len(case["ops"])
        res["digest"] = log.digest()
        return res


CHECKS = {"C19": C19()}
