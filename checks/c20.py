"""C20 — repeater storage identity under scheduled multi-client operation histories.

Real RepeaterStorage + Repeater; 1-3 logical clients (the way the P2P handler, the RDAC
handler and an application share one storage) whose operations a seeded scheduler
interleaves; reference model = insertion-ordered list of dicts, full snapshot after
every operation.
"""
import uuid as _uuid

from dsim import core
from dsim.base import Check

FIELDS = ["dmr_id", "callsign", "serial", "address_in", "address_out", "address_nat", "snmp_enabled", "nat_enabled"]
# dynamic keys: two of them are spelled like built-in members -- attr() keeps them in the dynamic namespace, patch() of the same name
# goes to the member; the two must never be confused
DYN = ["k1", "k2", "p2p_is_registered", "rx_freq", "serial", "callsign"]
NDYN_PATCH = 4  # the first four (and the OID keys appended below) are used as dynamic keys in patches; "serial"/"callsign" only through attr()
try:  # the library's own vocabulary of dynamic keys: the SNMP OIDs its read_snmp_values() stores on a record (order as declared: stable)
    from okdmr.dmrlib.hytera.snmp import SNMP as _SNMP

    OIDS = [v for k2, v in vars(_SNMP).items() if k2.startswith("OID_") and isinstance(v, str)]
except Exception:  # pragma: no cover
    OIDS = []
DYN = DYN + OIDS
# the last two are what asyncio hands to datagram_received for IPv6 peers: (host, port, flowinfo, scope_id)
ADDRS = [["10.0.0.1", 50000], ["10.0.0.1", 50002], ["10.0.0.2", 50000], ["10.0.0.2", 50002], ["fe80::1", 50000, 0, 0], ["fe80::1", 50000, 0, 3],
         ["110.0.0.1", 50000], ["0.0.0.1", 50000], "EMPTY", ["fe80::1%eth0", 50000, 0, 2]]  # textual suffix / prefix relatives of the first IP; the library's own ADDRESS_EMPTY constant; a zone-scoped link-local host
DEFAULTS = {"dmr_id": None, "callsign": "", "serial": "", "address_out": ("", 0), "address_nat": ("", 0),
            "snmp_enabled": True, "nat_enabled": False}


def tag(v):
    if isinstance(v, tuple):
        return ["addr", list(v)]
    if isinstance(v, (dict, list)):
        return [type(v).__name__, core.dumps(v)]
    return [type(v).__name__, v]


def untag(v):
    """JSON value -> python value used in calls ({'addr': [...]} -> tuple)"""
    if isinstance(v, dict) and "addr" in v:
        return addr_of(v["addr"])
    if isinstance(v, dict) and "uuid" in v:
        return _uuid.UUID(hex=v["uuid"])
    if isinstance(v, (dict, list)):
        import copy

        return copy.deepcopy(v)  # container values: a fresh object per patch unless the caller re-uses its patch object (reuse_patch)
    return v


def addr_of(a):
    """JSON address -> what is handed to the storage: a tuple, or the library's ADDRESS_EMPTY constant OBJECT for "EMPTY" (an application
    that has no address yet passes that very object around)"""
    if a == "EMPTY":
        from okdmr.dmrlib.storage import ADDRESS_EMPTY

        return ADDRESS_EMPTY
    return tuple(a)


_last_patch = {"json": None, "obj": None}


def real_patch(p, reuse=False):
    """JSON patch -> the dict handed to the library.  reuse: the caller applies the very patch OBJECT it used last time (same dict, same value
    objects) when it says the same thing -- an application that builds one patch and applies it to several records"""
    if reuse and _last_patch["obj"] is not None and _last_patch["json"] == core.dumps(p):
        return _last_patch["obj"]
    obj = {k: untag(v) for k, v in p.items()}
    _last_patch["json"], _last_patch["obj"] = core.dumps(p), obj
    return obj


class UuidSeam:
    """replaces the `uuid` module name inside okdmr.dmrlib.storage.repeater: ids from the seeded stream"""

    UUID = _uuid.UUID

    def __init__(self, seed):
        import random

        self._r = random.Random(seed)
        self.handed = 0

    def uuid4(self):
        self.handed += 1
        return _uuid.UUID(int=self._r.getrandbits(128), version=4)

    def __getattr__(self, n):
        return getattr(_uuid, n)


def rnd_value(field, r):
    return {
        "dmr_id": lambda: r.choice([0, 1, 2, 2620001, 16777215]),
        "callsign": lambda: r.choice(["", "OK1A", "OK2B"]),
        "serial": lambda: r.choice(["s1", "s2"]),
        "address_in": lambda: {"addr": r.choice(ADDRS)},
        "address_out": lambda: {"addr": r.choice(ADDRS)},
        "address_nat": lambda: {"addr": r.choice(ADDRS + [["", 0]])},
        "snmp_enabled": lambda: r.random() < 0.5,
        "nat_enabled": lambda: r.random() < 0.5,
    }[field]()


def rnd_patch(r):
    d = {}
    for _ in range(r.choice([0, 1, 1, 2, 3])):
        if r.random() < 0.55:
            f = r.choice(FIELDS)
            d[f] = rnd_value(f, r)
        else:
            key = r.choice(DYN[:NDYN_PATCH]) if r.random() < 0.8 or not OIDS else r.choice(OIDS)
            d[key] = r.choice([1, 2, "x", True, 0, False, 0.5, "", None, {"a": 1}, {"a": 2, "b": [1, 2]}, [1, 2], []])
    # (never the built-in "id": the library documents it as read-only; a caller that overwrites it breaks the storage's index on the unchanged
    # tree as well -- outside the property's domain, see DESIGN 9.7)
    return d


EXH = [
    {"op": "match_incoming", "addr": ADDRS[0], "auto": True, "patch": None},
    {"op": "match_incoming", "addr": ADDRS[1], "auto": True, "patch": None},
    {"op": "match_incoming", "addr": ADDRS[0], "auto": False, "patch": None},
    {"op": "match_incoming", "addr": ADDRS[0], "auto": True, "patch": {"address_in": {"addr": ADDRS[1]}}},
    {"op": "match_incoming", "addr": ADDRS[1], "auto": True, "patch": {"k1": 1}},
    {"op": "save", "rec": 0, "patch": {"address_in": {"addr": ADDRS[0]}, "callsign": "OK2B"}},
    {"op": "patch", "rec": 1, "patch": {"k1": 2, "dmr_id": 7}},
    {"op": "delete_attr", "rec": 0, "key": "k1"},
    {"op": "match_incoming", "addr": ADDRS[1], "auto": False, "patch": {"nat_enabled": True}},
    {"op": "attr_set", "rec": 0, "key": "k1", "value": 0},
]


class C20(Check):
    env_warnings_as_errors = True
    pid = "C20"
    level = "exploration"
    chunk = 100
    run_timeout = 60.0
    rule = ("seeded operation histories (match_incoming with/without auto-create and patch, save, patch, attr set/get, delete_attr, "
            "match_attr, match_ip_incoming, match_uuid, len/all, operations through references a client kept) by 1-3 logical clients "
            "interleaved by the seeded scheduler over 4 addresses / 4 dynamic keys / 8 built-in fields; exh arms enumerate every "
            "sequence over a 10-operation alphabet up to the stated length. distinct_nontrivial = distinct (min(#records,3), duplicate "
            "address_in present, operation, hit/miss/raise, acting client != client of previous op) transitions after which the full "
            "snapshot was compared with the model")
    real_components = ["RepeaterStorage", "Repeater"]
    stub_components = ["uuid seam (seeded ids)", "reference model (list of dicts)", "logical clients + seeded scheduler"]
    assumptions = ["patches never name id, logger or a method and never give None for a dynamic key (outside the property's 'named fields or dynamic attributes')",
                   "save() is only given records obtained from the storage"]
    exhaustive = {}

    def preload(self):
        from checks import c19

        c19.preload_cotenant()
        import okdmr.dmrlib.storage.repeater_storage  # noqa

    def budget(self, tier):
        return 120.0 if tier == "quick" else 1200.0

    def arms(self, tier):
        if tier == "quick":
            return [("exh4", 10 + 100 + 1000 + 10000), ("hist", 12000)]
        return [("exh6", 10 + 100 + 1000 + 10000 + 100000 + 1000000), ("hist", 300000)]

    def generate(self, arm, index, streams, tier):
        if arm.startswith("exh"):
            L, i = 1, index
            while i >= 10 ** L:
                i -= 10 ** L
                L += 1
            ops = []
            for _ in range(L):
                ops.append(dict(EXH[i % 10], client=0))
                i //= 10
            return {"knobs": {"clients": 1, "uuid_seed": 1}, "ops": ops}
        w = streams["work"]
        k = streams["knobs"]
        s = streams["sched"]
        nclients = k.choice([1, 2, 2, 3])
        n = k.choice([1, 2, 3, 5, 8, 13, 21, 34, 55, 89, 144, 233, 300])
        naddr = k.choice([1, 2, 4, 6, 6, 9, 10, 10])
        pool = ADDRS[:naddr]
        nrec = 6
        churn_at = []
        if k.random() < 0.01:
            # scale runs: hundreds of records (what a long-running server accumulates) and a history long enough to create and revisit them
            big = k.choice([140, 300])
            pool = pool + [[f"10.7.{i // 250}.{i % 250 + 1}", 50000 + (i % 3) * 2] for i in range(big)]
            n = k.choice([400, 700])
            nrec = big + 10
            churn_at = [n // 10, n // 2]
        weights = {o: k.choice([0, 1, 2, 4]) for o in
                   ["match_incoming", "save", "patch", "attr_set", "attr_get", "delete_attr", "match_attr", "match_ip", "match_uuid",
                    "held_patch", "held_attr", "len_all", "target_address"]}
        weights["match_incoming"] = max(weights["match_incoming"], 2 if nrec == 6 else 6)
        names = list(weights)
        ops = []
        last_patch_op = None
        for _ in range(n):
            o = w.choices(names, [weights[x] for x in names])[0]
            op = {"op": o, "client": s.randrange(nclients)}
            if o == "match_incoming":
                op["addr"] = w.choice(pool)
                op["auto"] = w.random() < 0.6
                op["patch"] = rnd_patch(w) if w.random() < 0.5 else None  # None = use the default argument
            elif o in ("save", "patch", "held_patch"):
                op["rec"] = w.randrange(nrec)
                op["patch"] = rnd_patch(w)
            elif o in ("attr_set", "held_attr"):
                op["rec"] = w.randrange(nrec)
                op["key"] = w.choice(DYN)
                op["value"] = w.choice([1, "y", True, 0, False, "", 2.5])
            elif o in ("attr_get", "delete_attr"):
                op["rec"] = w.randrange(nrec)
                op["key"] = w.choice(DYN)
            elif o == "match_attr":
                op["field"] = w.choice(["dmr_id", "callsign", "serial", "address_in", "address_out"])
                op["rec"] = w.randrange(nrec)  # value taken from this model record (hit) ...
                op["miss"] = w.random() < 0.2  # ... or a value nobody has
            elif o == "match_ip":
                op["ip"] = w.choice(["10.0.0.1", "10.0.0.2", "10.0.0.9", "110.0.0.1", "0.0.0.1", "", "fe80::1", "1"])
            elif o == "match_uuid":
                op["rec"] = w.randrange(nrec)
                op["unknown"] = w.random() < 0.1
            elif o == "target_address":
                op["rec"] = w.randrange(nrec)
            if op.get("patch") and last_patch_op is not None and w.random() < 0.15:
                op["patch"] = dict(last_patch_op["patch"])  # the application applies the patch it built a moment ago to another record as well
                op["reuse_patch"] = True
            if op.get("patch"):
                last_patch_op = op
            ops.append(op)
        for pos in churn_at:  # scale runs: hundreds of records are created AFTER short-lived ones were collected
            ops.insert(pos, {"op": "churn", "n": k.choice([400, 3000]), "client": 0})
        if k.random() < 0.03:
            # object churn elsewhere in the process (a fault of the environment, not an operation on this storage): another, short-lived storage
            # creates records with dynamic attributes and is dropped and collected; plain Repeater objects come and go.  Usually tens to
            # thousands of objects, rarely more than a 14- or 16-bit counter holds
            for _ in range(k.choice([1, 1, 2])):
                # ... or just short of a power of two, so that the records created next on this storage straddle a 14/15/16-bit counter wrap
                x = k.random()
                cn = k.choice([10, 300, 300, 3000, (1 << 14) - k.randrange(12), (1 << 14) - k.randrange(12)]) if x < 0.85 else ((1 << 15) - k.randrange(12) if x < 0.95 else (1 << 16) - k.randrange(12))
                ops.insert(w.randrange(len(ops) + 1), {"op": "churn", "n": cn, "client": 0})
        case = {"knobs": {"clients": nclients, "uuid_seed": k.getrandbits(32)}, "ops": ops}
        if k.random() < 0.08:
            from checks import c19

            case["cotenant"] = c19.gen_cotenant(streams["cotenant"])
        return case

    def sample(self, case):
        return {"arm": case.get("arm"), "knobs": case["knobs"], "ops": case["ops"][:10], "n_ops": len(case["ops"])}

    def simplify(self, case):
        if case.get("cotenant"):
            yield {kk: v for kk, v in case.items() if kk != "cotenant"}
        for i, o in enumerate(case["ops"]):
            if o.get("patch"):
                for key in list(o["patch"]):
                    p2 = dict(o["patch"])
                    del p2[key]
                    ops = list(case["ops"])
                    ops[i] = dict(o, patch=p2 or ({} if o["op"] != "match_incoming" else None))
                    yield dict(case, ops=ops)
            if o.get("client"):
                ops = list(case["ops"])
                ops[i] = dict(o, client=0)
                yield dict(case, ops=ops)

    # ------------------------------------------------------------------ execution

    def execute(self, case):
        import okdmr.dmrlib.storage.repeater as rmod
        from okdmr.dmrlib.storage.repeater_storage import RepeaterStorage

        res = core.RunResult()
        log = core.EventLog()
        seam = UuidSeam(case["knobs"].get("uuid_seed", 1))
        rmod.uuid = seam
        st = RepeaterStorage()
        model = []  # {"id":, "s": {field: python value}, "obj": first object returned}
        held = {}  # client -> model index
        prev_client = None

        def snap_real(r):
            d = {f: tag(getattr(r, f)) for f in FIELDS}
            d.update({"@" + k: tag(r.attr(k)) for k in DYN})
            return d

        def snap_model(m):
            return {k: tag(v) for k, v in m["s"].items()}

        def mfind(pred):
            for m in model:
                if pred(m):
                    return m
            return None

        def mpatch(m, p):
            import copy

            for k, v in p.items():
                if k == "id":
                    m["id"] = v
                    m["id_patched"] = True  # how the storage indexes a record whose id was patched is not stated: uuid lookups of it are not judged
                    res.probe("patch_names_the_builtin_id")
                elif k in FIELDS:
                    m["s"][k] = v
                elif v is not None:
                    m["s"]["@" + k] = copy.deepcopy(v) if isinstance(v, (dict, list)) else v  # the model keeps its own copy of container values
                    m["any"].discard("@" + k)
                else:
                    m["any"].add("@" + k)  # a None value for a dynamic key: what happens to that key is not constrained by the property
                    res.probe("patch_with_none_valued_dynamic_key")

        def new_model(rid, addr, obj):
            s = dict(DEFAULTS)
            s["address_in"] = addr
            for k in DYN:
                s["@" + k] = None
            m = {"id": rid, "s": s, "obj": obj, "any": set()}
            model.append(m)
            return m

        co = case.get("cotenant") or []
        if co:
            from checks import c19

            c19.run_cotenant(co[: len(co) // 2])
            res.fault("cotenant_library_calls", len(co))
        for i, op in enumerate(case["ops"]):
            if co and i == len(case["ops"]) // 2:
                c19.run_cotenant(co[len(co) // 2:])
            o = op["op"]
            c = op.get("client", 0)
            site = o
            n0 = len(st)
            outcome = "hit"
            V = lambda oracle, detail: res.violate(oracle, site, detail, at=i)
            before = [(m["id"], snap_model(m)) for m in model]
            raised = None
            try:
                if o == "churn":
                    import gc

                    scratch = RepeaterStorage()
                    for j in range(min(op["n"], 400)):
                        scratch.match_incoming((f"172.16.{j // 250}.{j % 250 + 1}", 50000), auto_create=True, patch={"k1": j, "callsign": f"X{j}", "k2": "churn"})
                    for j in range(max(0, op["n"] - 400)):
                        rmod.Repeater()
                    del scratch
                    gc.collect()
                    res.fault("object_churn", op["n"])
                    site = "churn"
                elif o == "match_incoming":
                    addr = addr_of(op["addr"])
                    p = real_patch(op["patch"], op.get("reuse_patch")) if op.get("patch") is not None else None
                    m = mfind(lambda x: x["s"]["address_in"] == addr)
                    kw = {} if p is None else {"patch": p}
                    site = f"match_incoming(auto={op['auto']},patch={'default' if p is None else ('empty' if not p else 'given')})"
                    try:
                        r = st.match_incoming(addr, auto_create=op["auto"], **kw)
                    except AttributeError as e:
                        if m is None and not op["auto"] and p:
                            raised = e  # save(None, patch) dereferences None: tolerated, must change nothing
                            outcome = "raise"
                        else:
                            raise
                    if raised is None:
                        if m is None and not op["auto"]:
                            outcome = "miss"
                            if r is not None:
                                V("C20.lookup", f"lookup of unseen address {addr} without auto-create returned {r!r}")
                            if len(st) != n0:
                                V("C20.growth", f"storage grew from {n0} to {len(st)} on a lookup without auto-create")
                        elif m is None:
                            outcome = "create"
                            if r is None:
                                V("C20.lookup", f"auto-creating lookup of {addr} returned None")
                            else:
                                if len(st) != n0 + 1:
                                    V("C20.growth", f"auto-creating lookup of unseen {addr}: size {n0} -> {len(st)}")
                                if any(r.id == x["id"] for x in model):
                                    V("C20.identity", f"new record for {addr} reuses id {r.id}")
                                m = new_model(r.id, addr, r)
                                if p:
                                    mpatch(m, p)
                                held[c] = model.index(m)
                        else:
                            if r is None or r.id != m["id"]:
                                V("C20.identity", f"lookup of {addr} returned id {getattr(r, 'id', None)}, model says {m['id']}")
                            elif r is not m["obj"]:
                                V("C20.identity", f"lookup of {addr} returned a different object with the same id")
                            if len(st) != n0:
                                V("C20.growth", f"storage size changed {n0} -> {len(st)} on a hit for {addr}")
                            if p:
                                mpatch(m, p)
                            held[c] = model.index(m)
                elif o == "len_all":
                    ids = [r.id for r in st.all()]
                    if ids != [m["id"] for m in model]:
                        V("C20.all", f"all() ids {ids} != model {[m['id'] for m in model]}")
                elif o == "match_ip":
                    m = mfind(lambda x: x["s"]["address_in"][0] == op["ip"])
                    r = st.match_ip_incoming(op["ip"])
                    outcome = "hit" if m else "miss"
                    if (r is None) != (m is None) or (m and r.id != m["id"]):
                        V("C20.identity", f"match_ip_incoming({op['ip']}) -> {getattr(r, 'id', None)}, model {m and m['id']}")
                elif not model:
                    outcome = "skip"
                else:
                    if o in ("held_patch", "held_attr"):
                        idx = held.get(c)
                        if idx is None:
                            idx = 0
                    else:
                        idx = op.get("rec", 0) % len(model)
                    m = model[idx]
                    r = m["obj"]
                    if o == "match_uuid":
                        if op.get("unknown"):
                            outcome = "miss"
                            try:
                                r2 = st.match_uuid(_uuid.UUID(int=12345, version=4))
                                V("C20.lookup", f"match_uuid of an unknown id returned {r2!r}")
                            except SystemError:
                                pass
                        elif m.get("id_patched"):
                            outcome = "skip"
                        else:
                            r2 = st.match_uuid(m["id"])
                            if r2 is not r:
                                V("C20.identity", f"match_uuid({m['id']}) returned another object (id {getattr(r2, 'id', None)})")
                    elif o == "target_address":
                        # the record's read accessor the handlers answer to: the NAT address of a record marked as behind NAT, else its source address
                        got = r.repeater_target_address()
                        want = m["s"]["address_nat"] if m["s"]["nat_enabled"] else m["s"]["address_in"]
                        if got != want or type(got) is not type(want):
                            V("C20.snapshot", f"repeater_target_address() returned {got!r}, the record's fields say {want!r} (nat_enabled={m['s']['nat_enabled']!r})")
                    elif o == "save":
                        p = real_patch(op["patch"], op.get("reuse_patch"))
                        r2 = st.save(r, p)
                        if r2 is not r:
                            V("C20.identity", "save() returned a different object")
                        mpatch(m, p)
                        held[c] = idx
                    elif o in ("patch", "held_patch"):
                        p = real_patch(op["patch"], op.get("reuse_patch"))
                        r.patch(p)
                        mpatch(m, p)
                    elif o in ("attr_set", "held_attr"):
                        r.attr(op["key"], op["value"])
                        m["s"]["@" + op["key"]] = op["value"]
                        m["any"].discard("@" + op["key"])
                    elif o == "attr_get":
                        got = r.attr(op["key"])
                        if tag(got) != tag(m["s"]["@" + op["key"]]):
                            V("C20.snapshot", f"attr({op['key']}) = {got!r}, model {m['s']['@' + op['key']]!r}")
                    elif o == "delete_attr":
                        present = m["s"]["@" + op["key"]] is not None
                        try:
                            r.delete_attr(op["key"])
                            m["s"]["@" + op["key"]] = None
                        except KeyError as e:
                            if present:
                                raise
                            raised = e
                            outcome = "raise"
                    elif o == "match_attr":
                        f = op["field"]
                        val = ("no-such", 1) if op.get("miss") else m["s"][f]
                        want = mfind(lambda x: type(x["s"][f]) is type(val) and x["s"][f] == val)
                        outcome = "hit" if want else "miss"
                        r2 = st.match_attr(f, val)
                        if (r2 is None) != (want is None) or (want and r2.id != want["id"]):
                            V("C20.identity", f"match_attr({f},{val!r}) -> {getattr(r2, 'id', None)}, model {want and want['id']}")
            except Exception as e:
                V("C20.raises", f"{o} raised {type(e).__name__}: {e}")
                break
            res["evals"] += 1
            # invariants after every operation
            if raised is not None:
                now = [(m["id"], snap_model(m)) for m in model]
                if now != before:
                    pass  # model is only changed on success; nothing to do
            if len(st) != len(model):
                V("C20.growth", f"len(storage)={len(st)} model={len(model)}")
            ids = [r.id for r in st.all()]
            if len(set(ids)) != len(ids):
                V("C20.identity", f"two records share an id: {ids}")
            for m in model:
                if m.get("id_patched"):
                    r = m["obj"]
                    if not any(x is r for x in st.all()):
                        V("C20.identity", f"record {m['id']} (id patched earlier) vanished from the storage")
                        continue
                else:
                    try:
                        r = st.match_uuid(m["id"])
                    except SystemError:
                        V("C20.identity", f"record {m['id']} vanished from the storage")
                        continue
                if r is not m["obj"]:
                    V("C20.identity", f"storage now holds a different object for id {m['id']}")
                sr, sm = snap_real(r), snap_model(m)
                for k in m["any"]:
                    sm[k] = sr[k]  # unconstrained keys follow the implementation
                    m["s"][k] = r.attr(k[1:])
                if sr != sm:
                    diff = {k: (sr[k], sm[k]) for k in sr if sr[k] != sm[k]}
                    V("C20.snapshot", f"record #{model.index(m)} differs from the model after {o}: {diff} (real, model)")
                    for k, v in sr.items():  # resynchronise so that one defect is reported once
                        m["s"][k] = tuple(v[1]) if v[0] == "addr" else v[1]
            dup = len({m["s"]["address_in"] for m in model}) != len(model)
            res["cov"].add(f"{min(len(model), 3)}|{int(dup)}|{o}|{outcome}|{int(prev_client is not None and prev_client != c)}")
            prev_client = c
            log.add(i, c, o, (outcome, len(st)))
            if res["viol"]:
                break
        res["ops"] = len(case["ops"])
        res["digest"] = log.digest()
        if len(model) >= 3:
            res.probe("three_or_more_records")
        if any(True for _ in ()):
            pass
        return res


CHECKS = {"C20": C20()}
