"""Base class every check derives from."""


class Check:
    pid = "C00"
    level = "exploration"
    split_generate = False  # generate in one pristine child, execute in another
    run_timeout = 120.0  # wall seconds per run child
    hang_is_violation = False
    chunk = 25  # runs per pool task
    has_clock = False
    sim_time_note = ""
    rule = ""
    real_components = []
    stub_components = []
    assumptions = []
    exhaustive = {}
    env_warnings_as_errors = False  # a sixth of the runs execute with warnings turned into errors (simulation checks opt in)
    library_exception_is_violation = False  # an exception escaping execute() from inside the library's code is reported as <pid>.library-call-raised

    def preload(self):
        """import the library modules used (template process: imports only, no calls)"""

    def worker_init(self):
        """called once in every pool worker and in the driver before it executes cases itself"""

    def arm_groups(self, tier):
        """list of arm-name sets; each group runs in its own process pool, forked after preload_group(i)"""
        return [None]

    def preload_group(self, i):
        self.preload()

    def budget(self, tier):
        return 150.0 if tier == "quick" else 1500.0

    def arms(self, tier):
        raise NotImplementedError

    def generate(self, arm, index, streams, tier):
        raise NotImplementedError

    def execute(self, case):
        raise NotImplementedError

    def simplify(self, case):
        """yield simpler candidate cases (beyond dropping ops)"""
        return ()

    def resolve(self, case, res):
        """turn run-time decisions recorded in res into part of the case (replay draws nothing)"""
        return case

    def sample(self, case):
        return case
