"""Core pieces shared by every check: seed derivation, PRNG streams, event log.

One integer decides everything: VERIF_SEED -> run_seed (per property/arm/index)
-> independent labelled random.Random streams.  Nothing here reads a clock.
"""
import hashlib
import json
import os
import random
import sys


def derive(*parts) -> int:
    h = hashlib.blake2b("/".join(str(p) for p in parts).encode(), digest_size=8)
    return int.from_bytes(h.digest(), "big")


class Streams:
    """Independent PRNG streams derived from one run seed by label."""

    def __init__(self, run_seed: int):
        self.run_seed = run_seed
        self._s = {}
        self.verif_seed = 0

    def __getitem__(self, label: str) -> random.Random:
        r = self._s.get(label)
        if r is None:
            r = self._s[label] = random.Random(derive(self.run_seed, label))
        return r


class EventLog:
    """Totally ordered record of what happened in a run; its hash is the run digest."""

    def __init__(self, keep: bool = False, limit: int = 4000):
        self._h = hashlib.sha256()
        self.n = 0
        self.keep = keep
        self.limit = limit
        self.events = []

    def add(self, t, actor, kind, payload=None):
        rec = (self.n, t, actor, kind, payload)
        self._h.update(repr(rec).encode())
        if self.keep and len(self.events) < self.limit:
            self.events.append(rec)
        self.n += 1

    def digest(self) -> str:
        return self._h.hexdigest()


class Violation(dict):
    """oracle: id of the rule; site: where (class of stimulus / call site);
    detail: human text; at: op index; sig: dict used by known-finding predicates."""

    def __init__(self, oracle, site, detail, at=None, sig=None):
        super().__init__(
            oracle=oracle, site=str(site), detail=str(detail)[:600], at=at, sig=sig or {}
        )

    @property
    def cls(self):
        return (self["oracle"], self["site"])


def vclass(v) -> tuple:
    return (v["oracle"], v["site"])


class RunResult(dict):
    """What one simulated run reports back to the driver (picklable, small)."""

    def __init__(self):
        super().__init__(
            viol=[],  # list[Violation]
            cov=set(),  # distinct abstract cases reached (strings)
            faults={},  # fault kind -> times it actually fired
            probes={},  # rare-branch probe -> count
            sim_time=0.0,
            ops=0,
            evals=0,  # oracle evaluations
            digest="",
            case=None,
            known=[],
        )

    def fault(self, kind, n=1):
        self["faults"][kind] = self["faults"].get(kind, 0) + n

    def probe(self, name, n=1):
        self["probes"][name] = self["probes"].get(name, 0) + n

    def violate(self, oracle, site, detail, at=None, sig=None):
        if len(self["viol"]) < 50:
            self["viol"].append(Violation(oracle, site, detail, at, sig))


def repo_root() -> str:
    return os.environ.get("VERIF_REPO", "/repo")


def use_repo():
    """Put the tree under test first on sys.path and assert that it is what gets imported."""
    root = os.path.realpath(repo_root())
    if root in sys.path:
        sys.path.remove(root)
    sys.path.insert(0, root)
    import logging

    logging.disable(logging.CRITICAL)
    import warnings

    warnings.simplefilter("ignore")
    import okdmr.dmrlib as d

    got = os.path.realpath(list(d.__path__)[0])
    want = os.path.join(root, "okdmr", "dmrlib")
    if got != want:
        raise RuntimeError(f"library imported from {got}, expected {want}")
    return root


def canon(obj):
    """JSON-able canonical form (sorted, hex for bytes)."""
    if isinstance(obj, (bytes, bytearray)):
        return obj.hex()
    if isinstance(obj, dict):
        return {str(k): canon(v) for k, v in sorted(obj.items(), key=lambda kv: str(kv[0]))}
    if isinstance(obj, (list, tuple)):
        return [canon(x) for x in obj]
    if isinstance(obj, (set, frozenset)):
        return sorted(canon(x) for x in obj)
    if isinstance(obj, (int, float, str, bool)) or obj is None:
        return obj
    return repr(obj)


def dumps(obj) -> str:
    return json.dumps(canon(obj), sort_keys=True, separators=(",", ":"))


def apply_env(env):
    """per-run process environment chosen by the seed (part of the case, so a replay restores it).
    logging: 'off' (logging.disable), 'debug' (everything enabled, records FORMATTED into an in-memory sink), 'warning'"""
    import io
    import logging

    import warnings

    warnings.simplefilter("error" if (env or {}).get("warnings") == "error" else "ignore")
    npm = (env or {}).get("numpy")
    if npm:
        # process-wide numpy settings an embedding application may have changed: terse array printing, floating-point errors that raise
        import numpy

        if npm in ("terse", "both"):
            numpy.set_printoptions(threshold=6, edgeitems=2, linewidth=40)
        if npm in ("raise", "both"):
            numpy.seterr(all="raise")
    mode = (env or {}).get("logging", "off")
    if mode == "off":
        logging.disable(logging.CRITICAL)
        return
    logging.disable(logging.NOTSET)
    root = logging.getLogger()
    for h in list(root.handlers):
        root.removeHandler(h)
    sink = io.StringIO()
    h = logging.StreamHandler(sink)
    h.setFormatter(logging.Formatter("%(asctime)s %(name)s %(levelname)s %(message)s"))
    root.addHandler(h)
    root.setLevel(logging.DEBUG if mode == "debug" else logging.WARNING)
    logging.raiseExceptions = False  # a broken log call must not print to stderr; it must not change behaviour either
