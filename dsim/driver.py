"""Batch driver: seeded search over runs, in pristine forked children, on all cores.

Exit codes: 0 held (possibly KNOWN-FINDING lines) / 1 VIOLATION printed / 2 HARNESS-ERROR.
"""
import concurrent.futures as cf
import faulthandler
import importlib
import json
import multiprocessing
import os
import sys
import time
from collections import Counter

from . import core, known, pristine, reach, shrink

VERIF_DIR = os.path.dirname(os.path.dirname(os.path.abspath(__file__)))
MAX_CLASSES = 10


def load_check(pid):
    mod = importlib.import_module("checks." + CHECK_MODULES[pid])
    return mod.CHECKS[pid]


CHECK_MODULES = {
    "C02": "c02",
    "C04": "c04",
    "C06": "c06",
    "C07": "c07_c08",
    "C08": "c07_c08",
    "C11": "c11",
    "C17": "c17",
    "C18": "c18",
    "C19": "c19",
    "C20": "c20",
}


# ---------------------------------------------------------------- child side


def _gen(a):
    chk, arm, i, run_seed, tier, verif_seed = a
    st = core.Streams(run_seed)
    st.verif_seed = verif_seed
    case = chk.generate(arm, i, st, tier)
    case.setdefault("property", chk.pid)
    case["arm"] = arm
    case["run"] = i
    case["run_seed"] = run_seed
    # process environment of the run (seeded; part of the case): a quarter of the runs have logging enabled at DEBUG, an eighth at WARNING
    e = core.derive(run_seed, "env") % 8
    case.setdefault("env", {"logging": "debug" if e in (0, 1) else ("warning" if e == 2 else "off")})
    case["env"]["optimize"] = int(sys.flags.optimize)  # interpreter flag the run was made under (-O pass, see main)
    en = core.derive(run_seed, "envnp") % 10
    if en < 3:
        case["env"].setdefault("numpy", ("terse", "raise", "both")[en])  # process-wide numpy print options / error state changed by the application
    if chk.env_warnings_as_errors and core.derive(run_seed, "envw") % 6 == 0:
        case["env"].setdefault("warnings", "error")  # the application runs with -W error (warnings raise)
    return case


def _execute(chk, case):
    """chk.execute(case); for checks that say so, an exception that comes out of the library's own code (innermost frame inside the tree
    under test) while the check makes calls the property covers is the library failing that call: a violation, not a harness error"""
    try:
        return chk.execute(case)
    except Exception as e:
        if not getattr(chk, "library_exception_is_violation", False):
            raise
        import traceback

        root = os.path.realpath(core.repo_root())
        frames = traceback.extract_tb(e.__traceback__)
        if not frames or not os.path.realpath(frames[-1].filename).startswith(root + os.sep):
            raise
        fr = frames[-1]
        res = core.RunResult()
        res.violate(chk.pid + ".library-call-raised", f"{os.path.relpath(fr.filename, root)}:{fr.name}",
                    f"{fr.name} ({os.path.relpath(fr.filename, root)}:{fr.lineno}) raised {type(e).__name__}: {str(e)[:200]} during a call the check makes with valid arguments")
        res["digest"] = format(core.derive("library-call-raised", fr.name, type(e).__name__), "x")
        return res


def _exec(a):
    chk, case = a
    core.apply_env(case.get("env"))
    rh = reach.start() if reach.wanted(case.get("run_seed", 0)) else None
    res = _execute(chk, case)
    if rh is not None:
        res["lines"] = reach.stop(rh)
    return res


def _gen_exec(a):
    chk, arm, i, run_seed, tier, want_sample, verif_seed = a
    rh = reach.start() if reach.wanted(run_seed) else None  # (before generation: the transmitter side of a simulation is real code too)
    case = _gen((chk, arm, i, run_seed, tier, verif_seed))
    core.apply_env(case.get("env"))
    res = _execute(chk, case)
    if rh is not None:
        res["lines"] = reach.stop(rh)
    res.fault("env_logging_" + case["env"]["logging"], 0 if case["env"]["logging"] == "off" else 1)
    res.fault("env_warnings_as_errors", 1 if case["env"].get("warnings") == "error" else 0)
    res.fault("env_numpy_" + str(case["env"].get("numpy")), 1 if case["env"].get("numpy") else 0)
    res["env"] = case["env"]
    res["faults"] = {k: v for k, v in res["faults"].items() if v}
    if res["viol"]:
        res["case"] = chk.resolve(case, res)
    if want_sample:
        res["sample"] = chk.sample(case)
    return res


def execute_case(chk, case, timeout=None):
    """Execute a resolved case in a fresh pristine child. Returns RunResult or raises."""
    try:
        res = pristine.run_in_child(_exec, (chk, case), timeout or chk.run_timeout)
    except pristine.ChildTimeout:
        if chk.hang_is_violation:
            r = core.RunResult()
            r.violate(chk.pid + ".hang", "run", f"run did not finish within {timeout or chk.run_timeout}s wall")
            return r
        raise
    if isinstance(res, tuple) and res and res[0] == "__exc__":
        raise RuntimeError("harness exception in child:\n" + res[1])
    return res


# ---------------------------------------------------------------- worker side


class Agg:
    def __init__(self):
        self.runs = 0
        self.evals = 0
        self.ops = 0
        self.sim_time = 0.0
        self.cov = set()
        self.faults = Counter()
        self.probes = Counter()
        self.viol = []  # (arm, i, run_seed, violation, case)
        self.known = Counter()  # entry id -> count
        self.known_what = {}
        self.known_sites = Counter()
        self.samples = []
        self.errors = []
        self.digests = {}
        self.seeds = []
        self.lines = {}  # library file -> set of function lines some sampled run executed (dsim/reach.py)
        self.reach_runs = 0

    def merge(self, o):
        self.runs += o.runs
        self.evals += o.evals
        self.ops += o.ops
        self.sim_time += o.sim_time
        self.cov |= o.cov
        self.faults.update(o.faults)
        self.probes.update(o.probes)
        self.viol.extend(o.viol)
        self.known.update(o.known)
        self.known_what.update(o.known_what)
        self.known_sites.update(o.known_sites)
        if len(self.samples) < 6:
            self.samples.extend(o.samples[: 6 - len(self.samples)])
        self.errors.extend(o.errors[:5])
        self.digests.update(o.digests)
        self.seeds.extend(o.seeds)
        for k, v in o.lines.items():
            self.lines.setdefault(k, set()).update(v)
        self.reach_runs += o.reach_runs


def _work(spec):
    pid, tier, verif_seed, arm, start, n, want_digests = spec
    faulthandler.dump_traceback_later(3600, exit=True)
    chk = load_check(pid)
    chk.worker_init()
    prep = getattr(chk, "worker_prepare", None)
    if prep is not None:
        prep(verif_seed, arm)  # per-batch material a check wants computed once per worker (in a pristine child of its own: the worker stays pristine)
    kf = known.load()
    agg = Agg()
    per_class = Counter()
    for i in range(start, start + n):
        run_seed = core.derive(verif_seed, pid, arm, i)
        want_sample = i == start and start % (5 * n) == 0
        try:
            if chk.split_generate:
                case = pristine.run_in_child(_gen, (chk, arm, i, run_seed, tier, verif_seed), chk.run_timeout)
                if isinstance(case, tuple) and case and case[0] == "__exc__":
                    raise RuntimeError(case[1])
                res = pristine.run_in_child(_exec, (chk, case), chk.run_timeout)
                if not (isinstance(res, tuple) and res and res[0] == "__exc__"):
                    lg = (case.get("env") or {}).get("logging", "off")
                    if lg != "off":
                        res.fault("env_logging_" + lg)
                    if (case.get("env") or {}).get("numpy"):
                        res.fault("env_numpy_" + case["env"]["numpy"])
                    res["env"] = case.get("env")
                    if res["viol"]:
                        res["case"] = chk.resolve(case, res)
                    if want_sample:
                        res["sample"] = chk.sample(case)
            else:
                res = pristine.run_in_child(
                    _gen_exec, (chk, arm, i, run_seed, tier, want_sample, verif_seed), chk.run_timeout
                )
        except pristine.ChildTimeout:
            agg.errors.append(f"{pid}/{arm}/{i}: run exceeded {chk.run_timeout}s wall (killed)")
            continue
        except Exception as e:
            agg.errors.append(f"{pid}/{arm}/{i}: {type(e).__name__}: {e}")
            continue
        if isinstance(res, tuple) and res and res[0] == "__exc__":
            agg.errors.append(f"{pid}/{arm}/{i}: harness exception in run child:\n{res[1]}")
            continue
        agg.runs += 1
        agg.evals += res["evals"]
        agg.ops += res["ops"]
        agg.sim_time += res["sim_time"]
        agg.cov |= res["cov"]
        agg.faults.update(res["faults"])
        agg.probes.update(res["probes"])
        if res.get("lines") is not None:
            agg.reach_runs += 1
            for k, v in res["lines"].items():
                agg.lines.setdefault(k, set()).update(v)
        if i == start:
            agg.seeds.append((arm, i, run_seed))
        if want_digests:
            agg.digests[f"{arm}/{i}"] = res["digest"]
        if res.get("sample") is not None:
            agg.samples.append(res["sample"])
        for v in res["viol"]:
            ent = known.match(kf, pid, v)
            if ent is not None:
                agg.known[ent["id"]] += v.get("count", 1)
                agg.known_what[ent["id"]] = ent["what"]
                agg.known_sites[ent["id"] + " @ " + v["site"]] += v.get("count", 1)
                continue
            c = core.vclass(v)
            per_class[c] += 1
            if per_class[c] <= 2:
                vc = v.get("case")
                if vc is not None and "env" not in vc and res.get("env"):
                    vc = dict(vc, env=res["env"])  # a sub-case inherits the process environment of the run that found it
                agg.viol.append((arm, i, run_seed, dict(v), vc or res.get("case")))
    faulthandler.cancel_dump_traceback_later()
    return agg


# ---------------------------------------------------------------- driver side


def _plan(chk, tier, only=None):
    """Round-robin over arms in chunks so that a wall cap truncates all arms alike."""
    arms = [(a, n) for a, n in chk.arms(tier) if only is None or a in only]
    scale = float(os.environ.get("VERIF_SCALE", "1"))
    if scale != 1:
        arms = [(a, max(1, int(n * scale))) for a, n in arms]
    pos = {a: 0 for a, _ in arms}
    todo = dict(arms)
    specs = []
    while any(pos[a] < todo[a] for a in pos):
        for a, _ in arms:
            if pos[a] < todo[a]:
                n = min(chk.chunk, todo[a] - pos[a])
                specs.append((a, pos[a], n))
                pos[a] += n
    return specs


def _replays_fresh(pid, path):
    import subprocess

    env = dict(os.environ)
    env["VERIF_OPT_PASS"] = "0"
    try:
        p = subprocess.run([sys.executable] + (["-O"] if sys.flags.optimize else []) + ["-c", "import sys; sys.path.insert(0, %r); from dsim import driver; sys.exit(driver.main(sys.argv[1:]))" % VERIF_DIR,
                            pid, "--replay", path], env=env, stdout=subprocess.PIPE, stderr=subprocess.STDOUT, text=True, timeout=600, cwd=VERIF_DIR)
    except Exception:
        return False
    return p.returncode == 1 and "VIOLATION property=" in p.stdout


def write_replay(chk, case, v, seed, minimised_from=None, digest=None):
    os.makedirs(os.path.join(VERIF_DIR, "replays"), exist_ok=True)
    name = f"{chk.pid}-{seed}-{case.get('arm', 'x')}-{case.get('run', 0)}-{core.derive(*core.vclass(v)) % 100000:05d}.json"
    path = os.path.join(VERIF_DIR, "replays", name)
    doc = dict(case)
    doc["format"] = 1
    doc["property"] = chk.pid
    doc["verif_seed"] = seed
    doc["violation"] = {k: v[k] for k in ("oracle", "site", "detail", "at")}
    if minimised_from is not None:
        doc["minimised_from_ops"] = minimised_from
    if digest:
        doc["digest"] = "sha256:" + digest
    with open(path, "w") as f:
        json.dump(core.canon(doc), f, indent=1, sort_keys=True)
    return path


def run_check(pid, tier, seed, budget_s=None, workers=None, digests_out=None, stop_early=True):
    t0 = time.time()
    core.use_repo()
    chk = load_check(pid)
    budget = float(budget_s if budget_s else chk.budget(tier))
    workers = workers or int(os.environ.get("VERIF_WORKERS", os.cpu_count() or 4))
    agg = Agg()
    truncated = False
    total_planned = 0
    ctx = multiprocessing.get_context("fork")
    stop = False
    state = {"exit": 0, "reported": 0, "done": set()}
    lines = []

    def process_violations():
        # ---- violations
        if agg.viol:
            chk.worker_init()
        by_class = {}
        for arm, i, rs, v, case in sorted(agg.viol, key=lambda x: (x[0], x[1], x[3]["oracle"], x[3]["site"])):
            by_class.setdefault(core.vclass(v), []).append((arm, i, rs, v, case))
        for c, instances in list(by_class.items())[:MAX_CLASSES]:
            if c in state["done"] or state["reported"] >= MAX_CLASSES:
                continue
            state["done"].add(c)
            # a violation counts only if its resolved case, executed alone in a pristine child, shows it again.  Up to four runs that showed the
            # same class are tried (a defect that depends on where objects happen to be allocated shows in one process and not in the next);
            # if none reproduces, that is a harness error, never a VIOLATION line
            vcase = None
            failures = []
            for arm, i, rs, v, case in instances[:4]:
                if case is None:
                    failures.append(f"violation {c} without a case")
                    continue
                cand = dict(case)
                try:
                    res = execute_case(chk, cand)
                except Exception as e:
                    failures.append(f"re-execution of {pid}/{arm}/{i} failed: {e}")
                    continue
                if [x for x in res["viol"] if core.vclass(x) == c]:
                    vcase = cand
                    break
                failures.append(
                    f"violation {c} of {pid}/{arm}/{i} did not reproduce when its resolved case was "
                    f"re-executed alone in a pristine child (history-dependent or nondeterministic)"
                )
            if vcase is None:
                agg.errors.extend(failures[:2])
                continue
            if failures:
                agg.probes["violation_instance_not_reproduced_but_another_of_its_class_was"] += len(failures)
            n_before = len(vcase.get("ops", []))
            mcase, mv, tried = shrink.minimise(chk, vcase, c, execute_case)
            path = write_replay(chk, mcase, mv, seed, minimised_from=n_before)
            # the replay file must show the violation in a process of its own (a fresh interpreter, not a fork of this one): checked here.  A
            # minimised case that only fails in forks of this process (object addresses, allocator state) is replaced by the unminimised one
            if not _replays_fresh(pid, path):
                agg.probes["minimised_case_did_not_replay_in_a_fresh_process"] += 1
                v0 = next((x for x in execute_case(chk, vcase)["viol"] if core.vclass(x) == c), mv)
                path = write_replay(chk, vcase, v0, seed, minimised_from=n_before)
                mcase, mv = vcase, v0
                if not _replays_fresh(pid, path):
                    agg.errors.append(f"violation {c} of {pid} shows in forks of the driver but its replay file {path} does not show it in a fresh process")
                    continue
            lines.append(f"VIOLATION property={pid} replay={path}")
            lines.append(f"  oracle={mv['oracle']} site={mv['site']} arm={arm} run={i} ops {n_before}->{len(mcase.get('ops', []))} ({tried} candidates tried)")
            lines.append(f"  detail: {mv['detail']}")
            state["reported"] += 1
            state["exit"] = 1

    # arm groups: each group gets its own pool, forked after the group's preload -- so a group can run in processes that imported
    # less of the library than the next one (import history is a configuration dimension of its own)
    for gi, group in enumerate(chk.arm_groups(tier)):
      chk.preload_group(gi)  # import library modules in the template (no library call is made)
      specs = _plan(chk, tier, group)
      total_planned += sum(n for _, _, n in specs)
      pending = set()
      it = iter(specs)
      if stop:
          truncated = truncated or bool(specs)
          continue
      with cf.ProcessPoolExecutor(max_workers=workers, mp_context=ctx) as ex:
          def submit_more():
              nonlocal stop
              while len(pending) < workers * 2 and not stop:
                  s = next(it, None)
                  if s is None:
                      break
                  a, st, n = s
                  pending.add(ex.submit(_work, (pid, tier, seed, a, st, n, bool(digests_out))))
          submit_more()
          while pending:
              done, _ = cf.wait(pending, timeout=5, return_when=cf.FIRST_COMPLETED)
              for f in done:
                  pending.discard(f)
                  try:
                      agg.merge(f.result())
                  except Exception as e:
                      agg.errors.append(f"worker failed: {type(e).__name__}: {e}")
              if time.time() - t0 > budget:
                  if next(it, None) is not None or stop is False and pending:
                      truncated = True
                  stop = True
              if stop_early and agg.viol and not stop:
                  stop = True
                  truncated = True
              if len(agg.errors) > 20:
                  stop = True
              submit_more()
              if stop:
                  # let in-flight chunks finish (bounded by chunk size * run_timeout)
                  pass
      # violations of this group are confirmed, minimised and written NOW, while this process still has the group's import state
      process_violations()
    for kid, n in sorted(agg.known.items()):
        lines.append(f"KNOWN-FINDING: property={pid} {kid}: {agg.known_what[kid]} (seen {n}x)")
    exit_code, reported = state["exit"], state["reported"]
    if agg.errors:
        for e in agg.errors[:10]:
            lines.append("HARNESS-ERROR " + e.replace("\n", "\n    "))
        if exit_code == 0:
            exit_code = 2
    if agg.runs == 0 and exit_code == 0:
        lines.append("HARNESS-ERROR no run completed")
        exit_code = 2
    wall = time.time() - t0
    ev = evidence_doc(chk, tier, seed, agg, wall, reported, truncated, total_planned, workers)
    evdir = os.environ.get("VERIF_EVIDENCE_DIR") or os.path.join(VERIF_DIR, "evidence")
    os.makedirs(evdir, exist_ok=True)
    with open(os.path.join(evdir, pid + ".json"), "w") as f:
        json.dump(core.canon(ev), f, indent=1, sort_keys=True)
    if digests_out:
        with open(digests_out, "w") as f:
            json.dump(agg.digests, f, sort_keys=True)
    for l in lines:
        print(l)
    print(
        f"{pid} {tier} seed={seed}: runs={agg.runs}/{total_planned} evals={agg.evals} cov={len(agg.cov)} "
        f"faults={sum(agg.faults.values())} known={sum(agg.known.values())} wall={wall:.1f}s exit={exit_code}"
        + (" (truncated)" if truncated else "")
    )
    return exit_code


def _git_head(root):
    import subprocess

    try:
        h = subprocess.run(["git", "-C", root, "rev-parse", "--short", "HEAD"], capture_output=True, text=True, timeout=10).stdout.strip()
        d = subprocess.run(["git", "-C", root, "status", "--porcelain", "--untracked-files=no"], capture_output=True, text=True, timeout=10).stdout.strip()
        return (h or "no-git") + ("+dirty" if d else "")
    except Exception:
        return "unknown"


def evidence_doc(chk, tier, seed, agg, wall, reported, truncated, planned, workers):
    cov = {
        "evaluations": int(agg.evals),
        "distinct_nontrivial": len(agg.cov),
        "rule": chk.rule,
        "samples": agg.samples[:5] or ["(no sample collected)"],
        "runs": agg.runs,
        "runs_planned": planned,
        "truncated_by_wall_cap_or_early_stop": truncated,
        "runs_per_hour": int(agg.runs / wall * 3600) if wall > 0 else 0,
        "ops": agg.ops,
        "seeds": [list(s) for s in sorted(agg.seeds)[:3]] + [list(s) for s in sorted(agg.seeds)[-1:]],
        "sim_time_s": round(agg.sim_time, 3) if chk.has_clock else None,
        "sim_time_note": chk.sim_time_note,
        "faults_fired": dict(sorted(agg.faults.items())),
        "probes": dict(sorted(agg.probes.items())),
        "distinct_states": len(agg.cov),
        "distinct_states_measure": chk.rule,
        "distinct_cases_sample": sorted(agg.cov)[:40],
        "real_components": chk.real_components,
        "stub_components": chk.stub_components,
        "known_findings_seen": dict(sorted(agg.known.items())),
        "known_findings_by_site": dict(sorted(agg.known_sites.items())),
        "workers": workers,
        "exhaustive": bool(getattr(chk, "exhaustive", {}).get(tier, False)) and not truncated,
        "harness_errors": len(agg.errors),
        "repo_under_test": core.repo_root(),
        "repo_head": _git_head(core.repo_root()),
    }
    if agg.reach_runs:
        cov["reach"] = reach.report(chk.pid, agg.lines, agg.reach_runs, getattr(chk, "reach_dirs", ()))
    extra = getattr(chk, "extra_evidence", None)
    if extra:
        cov.update(extra(tier, agg))
    return {
        "property_id": chk.pid,
        "tier": tier,
        "seed": int(seed),
        "level": chk.level,
        "coverage": cov,
        "assumptions": chk.assumptions,
        "wall_s": round(wall, 2),
        "violations": reported,
    }


def _reexec_optimized(argv, extra_env=None):
    """run this driver again under python -O (asserts stripped) and return (exit code, stdout)"""
    import subprocess

    env = dict(os.environ, **(extra_env or {}))
    env["PYTHONHASHSEED"] = os.environ.get("VERIF_OPT_HASHSEED", "271828")  # the -O pass also runs under another hash seed
    boot = 'import sys; sys.path.insert(0, "."); from dsim import driver; sys.exit(driver.main(sys.argv[1:]))'
    p = subprocess.run([sys.executable, "-O", "-c", boot] + argv, cwd=VERIF_DIR, env=env, capture_output=True, text=True)
    return p.returncode, p.stdout


def replay(pid, path):
    with open(path) as f:
        case = json.load(f)
    want_opt = int((case.get("env") or {}).get("optimize", 0))
    if want_opt and not sys.flags.optimize:
        rc, out = _reexec_optimized([pid, "--replay", path])  # the case was found under python -O: replay it there
        print(out, end="")
        return rc
    core.use_repo()
    chk = load_check(pid)
    # same import state as the arm's group had (groups are cumulative)
    groups = chk.arm_groups("quick")
    upto = next((gi for gi, g in enumerate(groups) if g is not None and case.get("arm") in g), len(groups) - 1)
    for gi in range(upto + 1):
        chk.preload_group(gi)
    chk.worker_init()
    want = (case["violation"]["oracle"], case["violation"]["site"])
    res = execute_case(chk, case)
    kf = known.load()
    hit = [v for v in res["viol"] if core.vclass(v) == want]
    other = [v for v in res["viol"] if core.vclass(v) != want and known.match(kf, pid, v) is None]
    if hit:
        print(f"VIOLATION property={pid} replay={path}")
        print(f"  reproduced oracle={want[0]} site={want[1]} at={hit[0]['at']}: {hit[0]['detail']}")
        print(f"  digest sha256:{res['digest']}")
        return 1
    if other:
        print(f"VIOLATION property={pid} replay={path}")
        print(f"  different class on replay: {other[0]['oracle']} {other[0]['site']}: {other[0]['detail']}")
        return 1
    print(f"replay {path}: violation {want} not reproduced on this tree (digest sha256:{res['digest']})")
    return 0


def _optimized_pass(a, rc):
    """a reduced pass of the same check under python -O (the library validates input with assert statements, which -O strips):
    the property must hold there too.  Its violations are reported like any other; its counts go into the evidence file."""
    import tempfile

    scale = float(os.environ.get("VERIF_SCALE", "1")) * (0.12 if a.tier == "quick" else 0.05)
    evdir = tempfile.mkdtemp(prefix="evopt-", dir="/tmp")
    try:
        argv = [a.pid, "--tier", a.tier, "--seed", str(a.seed + 1000003)] + (["--workers", str(a.workers)] if a.workers else [])
        orc, out = _reexec_optimized(argv, {"VERIF_SCALE": repr(scale), "VERIF_EVIDENCE_DIR": evdir, "VERIF_OPT_PASS": "0"})
        shown = [l for l in out.splitlines() if l.startswith(("VIOLATION", "  oracle=", "  detail", "HARNESS-ERROR"))]
        for l in shown:
            print(l)
        last = [l for l in out.splitlines() if " exit=" in l]
        print("  [python -O pass] " + (last[-1] if last else f"exit={orc}"))
        try:
            sub = json.load(open(os.path.join(evdir, a.pid + ".json")))
            evp = os.path.join(os.environ.get("VERIF_EVIDENCE_DIR") or os.path.join(VERIF_DIR, "evidence"), a.pid + ".json")
            ev = json.load(open(evp))
            ev["coverage"]["optimized_interpreter_pass"] = {"flag": "-O", "seed": a.seed + 1000003, "runs": sub["coverage"]["runs"],
                                                            "evaluations": sub["coverage"]["evaluations"], "violations": sub.get("violations", 0), "exit": orc}
            ev["violations"] = ev.get("violations", 0) + sub.get("violations", 0)
            json.dump(ev, open(evp, "w"), indent=1, sort_keys=True)
        except Exception as e:
            print(f"  [python -O pass] evidence not merged: {e}")
        if orc == 1:
            return 1
        if orc != 0 and rc == 0:
            return 2
        return rc
    finally:
        import shutil

        shutil.rmtree(evdir, ignore_errors=True)


def main(argv):
    import argparse

    ap = argparse.ArgumentParser()
    ap.add_argument("pid")
    ap.add_argument("--tier", default=os.environ.get("VERIF_TIER", "quick"), choices=["quick", "thorough"])
    ap.add_argument("--replay")
    ap.add_argument("--seed", type=int, default=int(os.environ.get("VERIF_SEED", "0")))
    ap.add_argument("--budget", type=float, default=float(os.environ.get("VERIF_BUDGET_S", "0")) or None)
    ap.add_argument("--workers", type=int)
    ap.add_argument("--digests")
    ap.add_argument("--no-stop-early", action="store_true")
    a = ap.parse_args(argv)
    try:
        if a.replay:
            return replay(a.pid, a.replay)
        rc = run_check(a.pid, a.tier, a.seed, a.budget, a.workers, a.digests, not a.no_stop_early)
        if not sys.flags.optimize and os.environ.get("VERIF_OPT_PASS", "1") == "1" and not a.digests:
            rc = _optimized_pass(a, rc)
        return rc
    except SystemExit:
        raise
    except BaseException as e:
        import traceback

        traceback.print_exc()
        print(f"HARNESS-ERROR {type(e).__name__}: {e}")
        return 2
