"""Known findings: committed file, never written at run time.

Entry: {"status": "known"|"fixed", "property", "id", "what", "match": {"oracle": [...], "predicate": name, ...}}
Predicates are a closed set of named functions over the violation record."""
import json
import os

PATH = os.path.join(os.path.dirname(os.path.dirname(os.path.abspath(__file__))), "known_findings.json")


def load():
    if not os.path.exists(PATH):
        return []
    with open(PATH) as f:
        return [e for e in json.load(f)["entries"] if e.get("status") == "known"]


def _received_check_field_is_zero(v, m):
    return bool(v["sig"].get("check_zero")) and v["sig"].get("kind") in m.get("pdu_kinds", [])


def _reserialisation_differs(v, m):
    return bool(v["sig"].get("reser_differs")) and not v["sig"].get("check_zero") and v["sig"].get("kind") in m.get("pdu_kinds", [])


def _always(v, m):
    return True


def _sig_equals(v, m):
    return all(v["sig"].get(k) == val for k, val in m.get("sig", {}).items())


PREDICATES = {
    "received_check_field_is_zero": _received_check_field_is_zero,
    "reserialisation_differs_from_received": _reserialisation_differs,
    "sig_equals": _sig_equals,
}


def match(entries, pid, v):
    for e in entries:
        if e["property"] != pid:
            continue
        m = e["match"]
        if v["oracle"] not in m["oracle"]:
            continue
        if PREDICATES[m["predicate"]](v, m):
            return e
    return None
