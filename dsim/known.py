"""Known findings: committed file, never written at run time.

Entry: {"status": "known"|"fixed", "property", "id", "what", "match": {"oracle": [...], "predicate": name, ...}}
Predicates are a closed set of named functions over the violation record."""
import json
import os

PATH = os.path.join(os.path.dirname(os.path.dirname(os.path.abspath(__file__))), "known_findings.json")


def load():
    if not os.path.exists(PATH):
        return []
    with open(PATH) as f:
        return [e for e in json.load(f)["entries"] if e.get("status") == "known"]


def _received_check_field_is_zero(v, m):
    return bool(v["sig"].get("check_zero")) and v["sig"].get("kind") in m.get("pdu_kinds", [])


def _reserialisation_differs(v, m):
    return bool(v["sig"].get("reser_differs")) and not v["sig"].get("check_zero") and v["sig"].get("kind") in m.get("pdu_kinds", [])


def _reserialisation_differs_at(v, m):
    """D11 narrowed to the places where it is known: the received covered bits differ from the re-serialised PDU only at wire positions listed
    for this PDU kind and for this outcome (accepted with equal / with different field values)"""
    sig = v["sig"]
    if not sig.get("reser_differs") or sig.get("check_zero"):
        return False
    if sig.get("reser_check_differs"):
        return False  # the accepted PDU no longer carries the check value it received: not "the received value fits the normalised fields"
    per_kind = m.get("positions", {}).get(sig.get("kind"))
    if per_kind is None or sig.get("fields") not in per_kind:
        return False
    allowed = set(per_kind[sig["fields"]])
    if sig["fields"] == "different" and set(sig.get("flipped") or []) & set(per_kind.get("format", [])):
        # the injected pattern changes the PDU's format field: the word is then parsed as another format, whose uncarried bits are dropped too
        allowed |= set(per_kind["equal"])
    pos = sig.get("reser_pos")
    return bool(pos) and set(pos) <= allowed


def _always(v, m):
    return True


def _sig_equals(v, m):
    return all(v["sig"].get(k) == val for k, val in m.get("sig", {}).items())


PREDICATES = {
    "received_check_field_is_zero": _received_check_field_is_zero,
    "reserialisation_differs_from_received": _reserialisation_differs,
    "sig_equals": _sig_equals,
    "reserialisation_differs_at_listed_positions": _reserialisation_differs_at,
}


def match(entries, pid, v):
    for e in entries:
        if e["property"] != pid:
            continue
        m = e["match"]
        if v["oracle"] not in m["oracle"]:
            continue
        if PREDICATES[m["predicate"]](v, m):
            return e
    return None
