"""Virtual-time asyncio event loop.

time() returns simulated seconds; when nothing is ready the clock jumps to the
next timer.  No selector, no real sleep.  Simultaneous timers are ordered by
(when, prio, seq): prio is given by whoever schedules the event (the simulator
draws it from the seed), so ties are decided by the seed, not by insertion.
"""
import asyncio
import heapq
from asyncio import events


class SimTimerHandle(events.TimerHandle):
    __slots__ = ("_prio", "_seq")

    def __init__(self, when, callback, args, loop, context=None, prio=0, seq=0):
        super().__init__(when, callback, args, loop, context)
        self._prio = prio
        self._seq = seq

    def _key(self):
        return (self._when, self._prio, self._seq)

    def __lt__(self, other):
        return self._key() < other._key()

    def __le__(self, other):
        return self._key() <= other._key()

    def __gt__(self, other):
        return self._key() > other._key()

    def __ge__(self, other):
        return self._key() >= other._key()

    def __eq__(self, other):
        return self is other

    __hash__ = events.TimerHandle.__hash__


class SimLoop(asyncio.BaseEventLoop):
    def __init__(self, max_steps=20000):
        super().__init__()
        self._now = 0.0
        self._clock_resolution = 1e-9
        self._seq = 0
        self.steps = 0
        self.max_steps = max_steps
        self.exhausted = False
        self.unhandled = []
        self.set_exception_handler(self._on_exc)

    def _on_exc(self, loop, context):
        self.unhandled.append(context)

    # --- clock
    def time(self):
        return self._now

    # --- scheduling with explicit tie-break
    def call_at(self, when, callback, *args, context=None, prio=0):
        self._check_closed()
        self._seq += 1
        timer = SimTimerHandle(when, callback, args, self, context, prio=prio, seq=self._seq)
        heapq.heappush(self._scheduled, timer)
        timer._scheduled = True
        return timer

    def call_later(self, delay, callback, *args, context=None, prio=0):
        return self.call_at(self._now + max(delay, 0), callback, *args, context=context, prio=prio)

    # --- no I/O
    def _process_events(self, event_list):
        pass

    def _write_to_self(self):
        pass

    def _timer_handle_cancelled(self, handle):
        pass

    def _run_once(self):
        while self._scheduled and self._scheduled[0]._cancelled:
            h = heapq.heappop(self._scheduled)
            h._scheduled = False
        if not self._ready and self._scheduled:
            self._now = max(self._now, self._scheduled[0]._when)
        # move exactly the due timers, in (when, prio, seq) order
        while self._scheduled and self._scheduled[0]._when <= self._now:
            h = heapq.heappop(self._scheduled)
            h._scheduled = False
            if not h._cancelled:
                self._ready.append(h)
        if not self._ready and not self._scheduled:
            self._stopping = True
        n = len(self._ready)
        for _ in range(n):
            h = self._ready.popleft()
            if h._cancelled:
                continue
            self.steps += 1
            if self.steps > self.max_steps:
                self.exhausted = True
                self._stopping = True
                return
            h._run()

    def pending(self):
        return len(self._ready) + sum(1 for h in self._scheduled if not h._cancelled)
