"""Simulated datagram transport: the only network the handlers under test ever see."""
import asyncio


class SimDatagramTransport(asyncio.DatagramTransport):
    def __init__(self, owner, on_send):
        super().__init__()
        self.owner = owner
        self.on_send = on_send
        self.closed = False

    def sendto(self, data, addr=None):
        self.on_send(self.owner, bytes(data), addr)

    def is_closing(self):
        return self.closed

    def close(self):
        self.closed = True

    def abort(self):
        self.closed = True

    def get_extra_info(self, name, default=None):
        return default

    def __repr__(self):
        return f"<SimDatagramTransport {self.owner}>"


class SimDateTime:
    """stand-in for the `datetime` name imported by a module: now() reads the simulated clock"""

    def __init__(self, clock, base=1_700_000_000.0):
        self._clock = clock
        self._base = base
        self.skew = 0.0
        self.reads = 0

    def now(self, tz=None):
        from datetime import datetime as _dt

        self.reads += 1
        return _dt.fromtimestamp(self._base + self._clock() + self.skew, tz)

    def __getattr__(self, name):
        from datetime import datetime as _dt

        return getattr(_dt, name)
