"""Run a function in a child forked from a *pristine* process.

The calling process must have imported the library but never called into it
(driver and pool workers obey this: all library code runs in grandchildren).
Process-global state mutated by one run (CRC registers, caches, default
arguments, class attributes) therefore never leaks into the next run.
"""
import os
import pickle
import select
import signal
import struct
import sys
import time
import traceback


class ChildCrash(Exception):
    pass


class ChildTimeout(Exception):
    pass


def _read_all(fd, deadline):
    buf = bytearray()
    while True:
        left = deadline - time.monotonic()
        if left <= 0:
            raise ChildTimeout()
        r, _, _ = select.select([fd], [], [], min(left, 1.0))
        if not r:
            continue
        c = os.read(fd, 1 << 20)
        if not c:
            return bytes(buf)
        buf += c


def run_in_child(fn, arg, timeout=60.0):
    """Returns fn(arg) computed in a forked child.  Raises ChildTimeout / ChildCrash.
    An exception *inside fn* is returned as ("__exc__", text): callers decide what it means."""
    r, w = os.pipe()
    sys.stdout.flush()
    sys.stderr.flush()
    pid = os.fork()
    if pid == 0:
        code = 0
        try:
            os.close(r)
            try:
                res = fn(arg)
            except BaseException as e:  # harness-level failure inside the child
                res = ("__exc__", "".join(traceback.format_exception(e))[-4000:])
            data = pickle.dumps(res, protocol=pickle.HIGHEST_PROTOCOL)
            mv = memoryview(data)
            while mv:
                n = os.write(w, mv[: 1 << 16])
                mv = mv[n:]
        except BaseException:
            code = 3
        finally:
            os._exit(code)
    os.close(w)
    try:
        data = _read_all(r, time.monotonic() + timeout)
    except ChildTimeout:
        try:
            os.kill(pid, signal.SIGKILL)
        except ProcessLookupError:
            pass
        os.waitpid(pid, 0)
        os.close(r)
        raise
    os.close(r)
    _, status = os.waitpid(pid, 0)
    if not data:
        raise ChildCrash(f"child exited with status {status} and no result")
    return pickle.loads(data)


class Watchdog:
    """CPU-time watchdog around single library calls inside a run child."""

    class Timeout(BaseException):
        pass

    def __init__(self, seconds=5.0):
        self.seconds = seconds
        signal.signal(signal.SIGVTALRM, self._fire)

    def _fire(self, signum, frame):
        raise Watchdog.Timeout()

    def __enter__(self):
        signal.setitimer(signal.ITIMER_VIRTUAL, self.seconds)
        return self

    def __exit__(self, *a):
        signal.setitimer(signal.ITIMER_VIRTUAL, 0)
        return False
