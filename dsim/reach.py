"""Reach measurement: which lines of the library's functions did the simulated runs actually execute.

Uses sys.monitoring (PEP 669) LINE events inside a seeded sample of run children; every location reports once per
process and is then disabled, so the cost is a few thousand callbacks per sampled run.  It observes only: nothing
here draws from a PRNG, reads a clock or changes what the run does, so event-log digests are the same with and
without it (selftest/determinism.sh runs with it on).

Only lines inside *function* bodies are counted (module and class bodies run at import time in the template
process, before any run child exists).  The report lists, per file the property is anchored in, the function
lines no sampled run reached -- a blind spot of the workload, whatever the oracle would say there.
"""
import json
import os
import sys

from . import core

TOOL = 1  # sys.monitoring.COVERAGE_ID
CO_OPTIMIZED = 0x1


def every() -> int:
    try:
        return int(os.environ.get("VERIF_REACH_EVERY", "8"))
    except ValueError:
        return 8


def wanted(run_seed) -> bool:
    n = every()
    if n <= 0 or not hasattr(sys, "monitoring"):
        return False
    return core.derive(run_seed, "reach") % n == 0


def start():
    """start recording in this process; returns the handle to pass to stop()"""
    root = os.path.join(os.path.realpath(core.repo_root()), "okdmr", "dmrlib") + os.sep
    seen = set()
    mon = sys.monitoring

    def on_line(code, line):
        if code.co_flags & CO_OPTIMIZED:
            fn = code.co_filename
            if fn.startswith(root) or os.path.realpath(fn).startswith(root):
                seen.add((fn, line))
        return mon.DISABLE

    try:
        mon.use_tool_id(TOOL, "dsim-reach")
    except ValueError:
        return None  # somebody else (a debugger, coverage.py) owns the slot: measure nothing rather than disturb it
    mon.register_callback(TOOL, mon.events.LINE, on_line)
    mon.set_events(TOOL, mon.events.LINE)
    return (seen, root)


def stop(handle):
    if handle is None:
        return None
    seen, root = handle
    mon = sys.monitoring
    mon.set_events(TOOL, 0)
    mon.register_callback(TOOL, mon.events.LINE, None)
    mon.free_tool_id(TOOL)
    out = {}
    for fn, line in seen:
        rel = os.path.realpath(fn)[len(root):]
        out.setdefault(rel, []).append(line)
    return {k: sorted(v) for k, v in out.items()}


def function_lines(path):
    """statements inside function bodies of the file: {first line of the statement: set of the lines it spans}.  A statement that spans
    several lines (a wrapped call, an assert with a message) counts as reached when any of its lines was executed; for a compound
    statement (if / for / while / with / try / match) only its header is the unit, its body statements are units of their own."""
    import ast

    with open(path) as f:
        tree = ast.parse(f.read(), path)
    units = {}

    def header_end(node):
        first = None
        for fld in ("body", "orelse", "finalbody", "handlers", "cases"):
            for ch in getattr(node, fld, None) or ():
                ln = getattr(ch, "lineno", None)
                if ln is not None and (first is None or ln < first):
                    first = ln
        end = getattr(node, "end_lineno", node.lineno)
        return end if first is None else max(node.lineno, min(end, first - 1))

    def visit(node, in_func):
        for ch in ast.iter_child_nodes(node):
            if isinstance(ch, (ast.FunctionDef, ast.AsyncFunctionDef, ast.Lambda)):
                visit(ch, True)
                continue
            if isinstance(ch, ast.ClassDef):
                visit(ch, False)
                continue
            if isinstance(ch, ast.stmt) and in_func:
                is_doc = isinstance(ch, ast.Expr) and isinstance(getattr(ch, "value", None), ast.Constant) and isinstance(ch.value.value, str)
                if not is_doc and not isinstance(ch, (ast.Pass, ast.Global, ast.Nonlocal)):
                    units[ch.lineno] = set(range(ch.lineno, header_end(ch) + 1))
            visit(ch, in_func)

    visit(tree, False)
    return units


def _ranges(nums):
    nums = sorted(nums)
    out, i = [], 0
    while i < len(nums):
        j = i
        while j + 1 < len(nums) and nums[j + 1] == nums[j] + 1:
            j += 1
        out.append(str(nums[i]) if i == j else f"{nums[i]}-{nums[j]}")
        i = j + 1
    return out


def anchored_files(pid):
    here = os.path.dirname(os.path.dirname(os.path.abspath(__file__)))
    try:
        with open(os.path.join(here, "properties.jsonl")) as f:
            for l in f:
                p = json.loads(l)
                if p["id"] == pid:
                    return [x[len("okdmr/dmrlib/"):] for x in p["anchors"]["files"] if x.startswith("okdmr/dmrlib/")]
    except OSError:
        pass
    return []


def report(pid, lines, sampled_runs, extra_dirs=()):
    """evidence block: per anchored file (plus every .py file under extra_dirs, relative to okdmr/dmrlib), function statements reached /
    not reached by the sampled runs"""
    root = os.path.join(os.path.realpath(core.repo_root()), "okdmr", "dmrlib")
    files = {}
    tot_e = tot_r = 0
    rels = list(anchored_files(pid))
    for d in extra_dirs:
        for dp, _, fns in sorted(os.walk(os.path.join(root, d))):
            for fn in sorted(fns):
                rel = os.path.relpath(os.path.join(dp, fn), root)
                if fn.endswith(".py") and rel not in rels:
                    rels.append(rel)
    for rel in rels:
        p = os.path.join(root, rel)
        if not os.path.exists(p):
            continue
        units = function_lines(p)
        hit = set(lines.get(rel, ()))
        got = {u for u, span in units.items() if span & hit}
        files[rel] = {"function_statements": len(units), "reached": len(got), "not_reached": _ranges(set(units) - got)}
        tot_e += len(units)
        tot_r += len(got)
    other = {}
    for rel, ls in lines.items():
        if rel not in files:
            other[rel] = len(ls)
    return {
        "measure": "statements inside function bodies of the files the property is anchored in of which at least one sampled run child executed a line "
                   "(sys.monitoring LINE events; 1 run in %d sampled by seed); statements not reached (listed by first line) are workload blind spots" % max(every(), 1),
        "sampled_runs": sampled_runs,
        "anchored_function_statements": tot_e,
        "anchored_function_statements_reached": tot_r,
        "files": files,
        "other_library_files_reached": len(other),
        "other_library_lines_reached": sum(other.values()),
    }
