"""Minimisation of a failing case: ddmin over case['ops'], then check-specific passes.

A candidate is kept only if the *same violation class* (oracle, site) still fires
when the candidate is executed alone in a pristine child.
"""
import time

from . import core

MAX_TRIES = 400
MAX_WALL = 60.0


def minimise(chk, case, cls, execute_case):
    t0 = time.time()
    tried = 0
    best = dict(case)
    best_v = None

    def test(cand):
        nonlocal tried, best_v
        if tried >= MAX_TRIES or time.time() - t0 > MAX_WALL:
            return False
        tried += 1
        try:
            res = execute_case(chk, cand, timeout=min(chk.run_timeout, 30))
        except Exception:
            return False
        hit = [v for v in res["viol"] if core.vclass(v) == cls]
        if hit:
            best_v = hit[0]
            return True
        return False

    # make sure we have the violation record for the unminimised case
    if not test(best):
        # caller verified reproduction already; fall back to a placeholder
        best_v = core.Violation(cls[0], cls[1], "(not reproduced during minimisation)")
        return best, best_v, tried
    ops = list(best.get("ops", []))
    if ops:
        # truncate after the violating op first (cheap, usually big win)
        at = best_v.get("at")
        if isinstance(at, int) and at + 1 < len(ops):
            cand = dict(best, ops=ops[: at + 1])
            if test(cand):
                best = cand
                ops = list(best["ops"])
        n = 2
        while len(ops) >= 2 and tried < MAX_TRIES and time.time() - t0 < MAX_WALL:
            chunk = max(1, len(ops) // n)
            reduced = False
            for start in range(0, len(ops), chunk):
                cand_ops = ops[:start] + ops[start + chunk :]
                if not cand_ops:
                    continue
                cand = dict(best, ops=cand_ops)
                if test(cand):
                    best = cand
                    ops = cand_ops
                    n = max(n - 1, 2)
                    reduced = True
                    break
            if not reduced:
                if chunk == 1:
                    break
                n = min(len(ops), n * 2)
    if (best.get("env") or {}).get("warnings") == "error":
        cand = dict(best, env={k: v for k, v in best["env"].items() if k != "warnings"})
        if test(cand):
            best = cand
    if (best.get("env") or {}).get("numpy"):
        cand = dict(best, env={k: v for k, v in best["env"].items() if k != "numpy"})
        if test(cand):
            best = cand
    if (best.get("env") or {}).get("logging", "off") != "off":
        cand = dict(best, env=dict(best["env"], logging="off"))
        if test(cand):
            best = cand
    # check-specific simplifications, to fixpoint (bounded)
    progress = True
    while progress and tried < MAX_TRIES and time.time() - t0 < MAX_WALL:
        progress = False
        for cand in chk.simplify(best):
            if test(cand):
                best = cand
                progress = True
                break
    return best, best_v, tried
