import subprocess, shutil, os, sys, tempfile
BASE="/tmp/scratch/repo"
MUTS=[
 ("C17 sn wrap","okdmr/dmrlib/protocols/hytera/hstrp_datagram_protocol.py","% 0xFFFF","% 0x1FFFF","p_c17b.py","3000"),
 ("C17 hb echo always","okdmr/dmrlib/protocols/hytera/hstrp_datagram_protocol.py","            if self.hstrp_connected:\n                # TODO","            if True:\n                # TODO","p_c17b.py","1000"),
 ("C17 registry swapped","okdmr/dmrlib/protocols/hytera/rrs_datagram_protocol.py","self.registry[rrs.radio_ip.as_ip()] = RRSRadioState.Offline","self.registry[rrs.radio_ip.as_ip()] = RRSRadioState.Online","p_c17b.py","1000"),
 ("C17 ack keeps payload","okdmr/dmrlib/protocols/hytera/hstrp_datagram_protocol.py","        ack.payload = None\n","","p_c17b.py","1000"),
 ("C17 close not acked","okdmr/dmrlib/protocols/hytera/hstrp_datagram_protocol.py","            # confirm connection closing hstrp message\n            if not pdu.pkt_type.is_ack:","            # confirm connection closing hstrp message\n            if False:","p_c17b.py","1000"),
 ("C18 ping gate removed","okdmr/dmrlib/protocols/hytera/p2p_datagram_protocol.py","""        rpt = self.storage.match_incoming(address=address)
        if not rpt or not rpt.attr(self.STORAGE_ATTR_IS_REGISTERED):""","""        rpt = self.storage.match_incoming(address=address)
        if not rpt:""","p_c18b.py","1500"),
 ("C18 step keyed const","okdmr/dmrlib/protocols/hytera/rdac_datagram_protocol.py","self.step[address[0]] = 3","self.step['x'] = 3","p_c18b.py","1500"),
 ("C18 step4 wrong prefix","okdmr/dmrlib/protocols/hytera/rdac_datagram_protocol.py","if data[: len(self.STEP3_RESPONSE)] == self.STEP3_RESPONSE:","if data[: 3] == self.STEP3_RESPONSE[:3]:","p_c18b.py","1500"),
 ("C18 registered by ip only","okdmr/dmrlib/protocols/hytera/p2p_datagram_protocol.py","""    def handle_dmr_request(self, data: bytes, address: ADDRESS_TYPE) -> None:
        rpt = self.storage.match_incoming(address)""","""    def handle_dmr_request(self, data: bytes, address: ADDRESS_TYPE) -> None:
        rpt = self.storage.match_ip_incoming(address[0])""","p_c18b.py","1500"),
 ("C20 attrs shared","okdmr/dmrlib/storage/repeater.py","        self.__attrs: Dict[str, any] = dict()\n","        self.__attrs: Dict[str, any] = Repeater._SHARED\n","p_c20.py","500"),
 ("C20 create on hit","okdmr/dmrlib/storage/repeater_storage.py","        if not found and auto_create:","        if auto_create:","p_c20.py","500"),
 ("C20 default patch leak","okdmr/dmrlib/storage/repeater_storage.py","        found = self.match_attr(\"address_in\", address)\n","        found = self.match_attr(\"address_in\", address)\n        patch.setdefault('callsign', 'LEAK') if auto_create else None\n","p_c20.py","500"),
 ("C08 seq not reset","okdmr/dmrlib/transmission/timeslot.py","            self.rx_sequence = 0\n","            pass\n","p_c08d.py","800"),
 ("C08 label F->A dropped","okdmr/dmrlib/transmission/transmission.py","            self.last_voice_burst == VoiceBursts.VoiceBurstF\n            and burst.data_type == DataTypes.Reserved","            False","p_c08d.py","1500"),
 ("C08 header not reset","okdmr/dmrlib/transmission/transmission.py","        self.header = None\n        self.stream_no = secrets.token_bytes(4)\n\n        if newtype","        self.stream_no = secrets.token_bytes(4)\n\n        if newtype","p_c08d.py","1500"),
 ("C08 stream id kept","okdmr/dmrlib/transmission/transmission.py","        self.header = None\n        self.stream_no = secrets.token_bytes(4)\n\n        if newtype","        self.header = None\n\n        if newtype","p_c08d.py","800"),
]
for name,f,old,new,probe,n in MUTS:
    d=tempfile.mkdtemp(prefix="mut",dir="/tmp/scratch"); shutil.copytree(BASE+"/okdmr",d+"/okdmr")
    p=d+"/"+f; s=open(p).read()
    if s.count(old)<1: print(name,"PATTERN NOT FOUND"); shutil.rmtree(d); continue
    s=s.replace(old,new,1)
    if "Repeater._SHARED" in new: s=s.replace("class Repeater:\n","class Repeater:\n    _SHARED = dict()\n")
    open(p,"w").write(s)
    r=subprocess.run(["/venv/bin/python",probe,n],env=dict(os.environ,PYTHONPATH=d),capture_output=True,text=True,timeout=600)
    lines=[l for l in r.stdout.strip().splitlines() if l!="done"]
    print(f"{name:28s} -> {'DETECTED' if lines else 'MISSED'} {lines[0][:110] if lines else ''} {r.stderr.strip()[-200:] if r.returncode else ''}")
    shutil.rmtree(d)
