import subprocess, shutil, os, tempfile
BASE="/tmp/scratch/repo"
f="okdmr/dmrlib/protocols/hytera/p2p_datagram_protocol.py"
old="""        rpt = self.storage.match_incoming(address=address)
        if not rpt or not rpt.attr(self.STORAGE_ATTR_IS_REGISTERED):"""
new="""        rpt = self.storage.match_incoming(address=address)
        if not rpt:"""
d=tempfile.mkdtemp(prefix="mut",dir="/tmp/scratch"); shutil.copytree(BASE+"/okdmr",d+"/okdmr")
p=d+"/"+f; s=open(p).read(); assert s.count(old)==1; open(p,"w").write(s.replace(old,new))
r=subprocess.run(["/venv/bin/python","p_c18c.py","1500"],env=dict(os.environ,PYTHONPATH=d),capture_output=True,text=True)
print(r.stdout[:400], r.stderr[-300:]); shutil.rmtree(d)
