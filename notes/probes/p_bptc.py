import random, itertools, time
from bitarray import bitarray
from okdmr.dmrlib.etsi.fec.bptc_196_96 import BPTC19696
rnd = random.Random(1)
msg = bitarray([rnd.getrandbits(1) for _ in range(96)])
cw = BPTC19696.encode(msg)
assert len(cw)==196
print("R bits positions (interleaved) :", [v[0] for k,v in BPTC19696.INTERLEAVING_INDICES.items() if v[3]])
assert BPTC19696.deinterleave_data_bits(cw.copy(), True)==msg
assert BPTC19696.deinterleave_data_bits(cw.copy(), False)==msg
t=time.time()
bad1=[]
for i in range(196):
    c=cw.copy(); c.invert(i)
    if BPTC19696.deinterleave_data_bits(c, True)!=msg: bad1.append(i)
print("single failures", bad1, time.time()-t)
bad2=[]
t=time.time()
for i,j in itertools.combinations(range(196),2):
    c=cw.copy(); c.invert(i); c.invert(j)
    if BPTC19696.deinterleave_data_bits(c, True)!=msg: bad2.append((i,j))
print("double failures", len(bad2), time.time()-t)
print(bad2[:20])
