import random, itertools, time
from bitarray import bitarray
from okdmr.dmrlib.etsi.fec.bptc_196_96 import BPTC19696
from okdmr.dmrlib.etsi.fec.hamming_13_9_3 import Hamming1393
from okdmr.dmrlib.etsi.fec.hamming_15_11_3 import Hamming15113
def repair(bits, deinterleaved=False):
    if not deinterleaved:
        bits = BPTC19696.deinterleave_all_bits(bits)
    table = BPTC19696.make_encoding_table()
    table = BPTC19696.fill_encoding_table(table, bits)
    for row in range(0, table.shape[0]):
        table[row] = Hamming15113.correct_numpy_array(table[row])
    for col in range(0, table.shape[1]):
        table[:, col] = Hamming1393.correct_numpy_array(table[:, col])
    for data_index, (interleave_index,row,column,is_reserved,is_hamming) in BPTC19696.INTERLEAVING_INDICES.items():
        bits[data_index if deinterleaved else interleave_index] = table[row - 1][column]
    return bits
BPTC19696.repair_if_necessary = staticmethod(repair)
rnd = random.Random(1)
msg = bitarray([rnd.getrandbits(1) for _ in range(96)])
cw = BPTC19696.encode(msg)
bad2=[]
for i,j in itertools.combinations(range(196),2):
    c=cw.copy(); c.invert(i); c.invert(j)
    if BPTC19696.deinterleave_data_bits(c, True)!=msg: bad2.append((i,j))
print("double failures", len(bad2))
print(bad2[:20])
