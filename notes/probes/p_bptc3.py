import random
from bitarray import bitarray
from okdmr.dmrlib.etsi.fec.bptc_196_96 import BPTC19696
rnd = random.Random(2)
alt=0
for t in range(200):
    msg = bitarray([rnd.getrandbits(1) for _ in range(96)])
    cw = BPTC19696.encode(msg)
    before = cw.copy()
    rep = BPTC19696.repair_if_necessary(cw)
    assert cw == before, "input mutated"
    if rep != before:
        alt+=1
        diff=[i for i in range(196) if rep[i]!=before[i]]
        if alt<5: print("altered at", diff)
    # deinterleaved mode
    d = BPTC19696.deinterleave_all_bits(cw)
    d0 = d.copy()
    rep2 = BPTC19696.repair_if_necessary(d, deinterleaved=True)
    if rep2 != d0 and alt<5: print("deint altered", [i for i in range(196) if rep2[i]!=d0[i]], rep2 is d)
print("altered count", alt)
