import random
from bitarray import bitarray
from bitarray.util import int2ba, ba2int
from okdmr.dmrlib.etsi.fec import hamming_7_4_3, hamming_13_9_3, hamming_15_11_3, hamming_16_11_4, hamming_17_12_3
from okdmr.dmrlib.etsi.layer2.pdu.short_link_control import ShortLinkControl
from okdmr.dmrlib.etsi.layer2.pdu.slot_type import SlotType
from okdmr.dmrlib.etsi.layer2.pdu.embedded_signalling import EmbeddedSignalling
from okdmr.dmrlib.etsi.layer2.elements.slcos import SLCOs
from okdmr.dmrlib.etsi.layer3.elements.activity_id import ActivityID
for cls in (hamming_7_4_3.Hamming743, hamming_13_9_3.Hamming1393, hamming_15_11_3.Hamming15113, hamming_16_11_4.Hamming16114, hamming_17_12_3.Hamming17123):
    k=cls.CODE_DIMENSION; n=cls.CODEWORD_LENGTH; bad=0
    for m in range(1<<k):
        cw=bitarray(cls.generate(int2ba(m,k)).tolist())
        assert cw[:k]==int2ba(m,k) and cls.check(cw)
        for i in range(n):
            c=cw.copy(); c.invert(i)
            ok,f=cls.check_and_correct(c)
            if not ok or f!=cw: bad+=1
    print(cls.__name__, "single-error failures", bad)
# short LC
rnd=random.Random(1); bad=0
for t in range(200):
    s=ShortLinkControl(slco=SLCOs.ActivityUpdate, ts1_activity_id=ActivityID(rnd.randrange(0,3)), ts2_activity_id=ActivityID(rnd.randrange(0,3)), ts1_address=int2ba(rnd.getrandbits(8),8), ts2_address=int2ba(rnd.getrandbits(8),8))
    p=ShortLinkControl.from_bits(s.as_bits())
    if not p.crc_ok: bad+=1
print("shortLC roundtrip crc_ok false:", bad,"/200")
# slot type exhaustive membership
cws={ba2int(SlotType(cc,dt).as_bits()) for cc in range(16) for dt in range(16)}
mism=0
for w in range(1<<20):
    ok=SlotType.from_bits(int2ba(w,20)).fec_parity_ok
    if ok != (w in cws): mism+=1
print("slot type mismatches", mism, "codewords", len(cws))
cws={ba2int(EmbeddedSignalling(cc,pi,l).as_bits()) for cc in range(16) for pi in range(2) for l in range(4)}
mism=0
for w in range(1<<16):
    ok=EmbeddedSignalling.from_bits(int2ba(w,16)).emb_parity_ok
    if ok != (w in cws): mism+=1
print("emb mismatches", mism, "codewords", len(cws))
