import random, collections, sys, enum, itertools
from bitarray import bitarray
from bitarray.util import int2ba, ba2int
from okdmr.dmrlib.etsi.layer2.pdu.data_header import DataHeader
from okdmr.dmrlib.etsi.layer2.pdu.pi_header import PIHeader
from okdmr.dmrlib.etsi.layer2.pdu.short_link_control import ShortLinkControl
from okdmr.dmrlib.etsi.layer2.pdu.rate12_data import Rate12Data, Rate12DataTypes
from okdmr.dmrlib.etsi.layer2.pdu.rate34_data import Rate34Data, Rate34DataTypes
from okdmr.dmrlib.etsi.layer2.pdu.rate1_data import Rate1Data, Rate1DataTypes
from okdmr.dmrlib.etsi.layer2.elements.data_packet_formats import DataPacketFormats as DPF
from okdmr.dmrlib.etsi.layer2.elements.sap_identifier import SAPIdentifier
from okdmr.dmrlib.etsi.layer2.elements.full_message_flag import FullMessageFlag
from okdmr.dmrlib.etsi.layer2.elements.resynchronize_flag import ResynchronizeFlag
from okdmr.dmrlib.etsi.layer2.elements.defined_data_formats import DefinedDataFormats
from okdmr.dmrlib.etsi.layer2.elements.sarq import SARQ
from okdmr.dmrlib.etsi.layer2.elements.udt_format import UDTFormat
from okdmr.dmrlib.etsi.layer2.elements.supplementary_flag import SupplementaryFlag
from okdmr.dmrlib.etsi.layer2.elements.csbk_opcodes import CsbkOpcodes
from okdmr.dmrlib.etsi.layer2.elements.slcos import SLCOs
from okdmr.dmrlib.etsi.layer3.elements.udt_option_flag import UDTOptionFlag
from okdmr.dmrlib.etsi.layer3.elements.activity_id import ActivityID
from okdmr.dmrlib.hytera.pdu.hrnp import HRNP, HRNPOpcodes
from okdmr.dmrlib.hytera.pdu.radio_registration_service import RadioRegistrationService, RRSTypes
from okdmr.dmrlib.hytera.pdu.radio_ip import RadioIP
def canon(x, depth=0):
    if isinstance(x,bitarray): return "ba:"+x.to01()
    if isinstance(x,enum.Enum): return type(x).__name__+"."+x.name
    if isinstance(x,(bytes,bytearray)): return "by:"+bytes(x).hex()
    if isinstance(x,(int,float,str,bool,type(None))): return repr(x)
    if isinstance(x,(list,tuple)): return [canon(i,depth+1) for i in x]
    if isinstance(x,dict): return {repr(k):canon(v,depth+1) for k,v in sorted(x.items(),key=lambda kv:repr(kv[0]))}
    if hasattr(x,"__dict__") and depth<4: return {k:canon(v,depth+1) for k,v in sorted(vars(x).items())}
    return repr(x)
R=random.Random(int(sys.argv[1]) if len(sys.argv)>1 else 1)
def mk_dh():
    f=R.choice(["conf","unconf","resp","sdd","udt"])
    common=dict(llid_destination=R.getrandbits(24),llid_source=R.getrandbits(24),sap_identifier=R.choice(list(SAPIdentifier)))
    if f=="conf": return DataHeader(dpf=DPF.DataPacketConfirmed,is_group=R.random()<.5,is_response_requested=R.random()<.5,pad_octet_count=R.randrange(32),full_message_flag=FullMessageFlag(R.randrange(2)),blocks_to_follow=R.randrange(128),resynchronize_flag=ResynchronizeFlag(R.randrange(2)),send_sequence_number=R.randrange(8),fragment_sequence_number=R.randrange(16),**common)
    if f=="unconf": return DataHeader(dpf=DPF.DataPacketUnconfirmed,is_group=R.random()<.5,is_response_requested=R.random()<.5,pad_octet_count=R.randrange(32),full_message_flag=FullMessageFlag(R.randrange(2)),blocks_to_follow=R.randrange(128),fragment_sequence_number=R.randrange(16),**common)
    if f=="resp": return DataHeader(dpf=DPF.ResponsePacket,is_response_requested=R.random()<.5,full_message_flag=FullMessageFlag(R.randrange(2)),blocks_to_follow=R.randrange(128),response_class=R.randrange(4),response_type=R.randrange(8),response_status=R.randrange(8),**common)
    if f=="sdd": return DataHeader(dpf=DPF.ShortDataDefined,is_group=R.random()<.5,is_response_requested=R.random()<.5,appended_blocks=R.randrange(64),defined_data_format=R.choice(list(DefinedDataFormats)),sarq=SARQ(R.randrange(2)),full_message_flag=FullMessageFlag(R.randrange(2)),bit_padding=int2ba(R.getrandbits(8),8),**common)
    return DataHeader(dpf=DPF.UnifiedDataTransport,is_group=R.random()<.5,is_response_requested=R.random()<.5,is_emergency=R.random()<.5,udt_option_flag=UDTOptionFlag(R.randrange(2)),udt_format=R.choice(list(UDTFormat)),pad_nibbles_count=R.randrange(32),appended_blocks=R.randrange(4),supplementary_flag=SupplementaryFlag(R.randrange(2)),udt_opcode=R.choice(list(CsbkOpcodes)),**common)
KINDS={}
KINDS["dh"]=(mk_dh, lambda o:o.as_bits(), DataHeader.from_bits, "crc_ok", 16, 3)
KINDS["pi"]=(lambda:PIHeader(data=bytes(R.getrandbits(8) for _ in range(10))), lambda o:o.as_bits(), PIHeader.from_bits, "crc_ok",16,3)
KINDS["slc"]=(lambda:ShortLinkControl(slco=SLCOs.ActivityUpdate, ts1_activity_id=R.choice(list(ActivityID)), ts2_activity_id=R.choice(list(ActivityID)), ts1_address=int2ba(R.getrandbits(8),8), ts2_address=int2ba(R.getrandbits(8),8)) if R.random()<.8 else ShortLinkControl(slco=SLCOs.NullMessage), lambda o:o.as_bits(), ShortLinkControl.from_bits,"crc_ok",8,3)
def rb(n): return bytes(R.getrandbits(8) for _ in range(n))
for nm,cls,tps,(c,cl) in (("r12",Rate12Data,Rate12DataTypes,(10,6)),("r34",Rate34Data,Rate34DataTypes,(16,12)),("r1",Rate1Data,Rate1DataTypes,(22,18))):
    KINDS[nm+"c"]=((lambda cls=cls,tps=tps,c=c:cls(data=rb(c),packet_type=tps.Confirmed,dbsn=R.randrange(128))), lambda o:o.as_bits(), (lambda b,cls=cls,tps=tps:cls.from_bits_typed(b,tps.Confirmed)),"crc9_ok",9,2)
    KINDS[nm+"cl"]=((lambda cls=cls,tps=tps,cl=cl:cls(data=rb(cl),packet_type=tps.ConfirmedLastBlock,dbsn=R.randrange(128),crc32=rb(4))), lambda o:o.as_bits(), (lambda b,cls=cls,tps=tps:cls.from_bits_typed(b,tps.ConfirmedLastBlock)),"crc9_ok",9,2)
def mk_hrnp():
    op=R.choice(list(HRNPOpcodes))
    return HRNP(opcode=op, data=RadioRegistrationService(opcode=R.choice([RRSTypes.RadioRegistrationRequest,RRSTypes.RadioGoingOffline,RRSTypes.RadioRegistrationAnswer]),radio_ip=RadioIP(radio_id=R.getrandbits(24)),renew_time_seconds=R.randrange(1,0xFFFE)) if op==HRNPOpcodes.DATA else None, source=R.randrange(256),destination=R.randrange(256),packet_number=R.getrandbits(16),block_number=R.randrange(256))
def tobits(b): x=bitarray(); x.frombytes(b); return x
KINDS["hrnp"]=(mk_hrnp, lambda o:tobits(o.as_bytes()), lambda b:HRNP.from_bytes(b.tobytes()),"checksum_correct",15,1)
viol=collections.Counter(); ex={}; stats=collections.Counter()
N=int(sys.argv[2]) if len(sys.argv)>2 else 30
for kind,(mk,ser,par,ind,w,maxw) in KINDS.items():
    for t in range(N):
        o=mk(); wire=ser(o); n=len(wire)
        base=par(wire.copy())
        if not getattr(base,ind): viol[kind+" CLEAN-INDICATOR-FALSE"]+=1; ex.setdefault(kind+" CLEAN-INDICATOR-FALSE",wire.to01()); continue
        bf=canon(base)
        pats=[(i,) for i in range(n)]
        if maxw>=2: pats+=[tuple(sorted(R.sample(range(n),2))) for _ in range(300)]
        if maxw>=3: pats+=[tuple(sorted(R.sample(range(n),3))) for _ in range(300)]
        # wire-order bursts (naive; to see what straddling does)
        bursts=[]
        for L in range(2,w+1):
            for _ in range(6):
                s=R.randrange(0,n-L+1); inner=[s]+[s+j for j in range(1,L-1) if R.random()<.5]+[s+L-1]
                bursts.append(tuple(sorted(set(inner))))
        for tag,ps in (("w",pats),("burst",bursts)):
            for p in ps:
                c=wire.copy()
                for i in p: c.invert(i)
                try: q=par(c)
                except Exception as e: stats[kind+" raised"]+=1; continue
                if not getattr(q,ind): stats[kind+" detected"]+=1; continue
                if canon(q)==bf: stats[kind+" accepted-same-fields"]+=1; continue
                wq=ser(q)
                cls_=[]
                chk={"dh":(80,96),"pi":(80,96),"slc":(28,36),"hrnp":(80,96)}.get(kind,(7,16))
                if not c[chk[0]:chk[1]].any(): cls_.append("ZERO-CHECK")
                cov=[i for i in range(n) if not (chk[0]<=i<chk[1])]
                if any(wq[i]!=c[i] for i in cov): cls_.append("RESERIAL-DIFF")
                key=f"{kind} SILENT {tag}{len(p) if tag=='w' else ''} {'+'.join(cls_) or 'UNEXPLAINED'}"
                viol[key]+=1; ex.setdefault(key,(wire.to01(),p))
for k,v in sorted(stats.items()): print(v,k)
print("---violations")
for k,v in viol.most_common(): print(v,k,ex[k])
