import itertools, time
from bitarray import bitarray
from bitarray.util import int2ba, ba2int
from okdmr.dmrlib.etsi.fec.hamming_7_4_3 import Hamming743
from okdmr.dmrlib.etsi.fec.hamming_13_9_3 import Hamming1393
from okdmr.dmrlib.etsi.fec.hamming_15_11_3 import Hamming15113
from okdmr.dmrlib.etsi.fec.hamming_16_11_4 import Hamming16114
from okdmr.dmrlib.etsi.fec.hamming_17_12_3 import Hamming17123
from okdmr.dmrlib.etsi.fec.golay_20_8_7 import Golay2087
from okdmr.dmrlib.etsi.fec.quadratic_residue_16_7_6 import QuadraticResidue1676
t0=time.time()
for cls,n,k,d in ((Hamming743,7,4,3),(Hamming1393,13,9,3),(Hamming15113,15,11,3),(Hamming16114,16,11,4),(Hamming17123,17,12,3),(Golay2087,20,8,7),(QuadraticResidue1676,16,7,6)):
    cws=set()
    for m in range(1<<k):
        cw=bitarray(cls.generate(int2ba(m,k)).tolist()); assert len(cw)==n and cw[:k]==int2ba(m,k) and cls.check(cw); cws.add(ba2int(cw))
    assert len(cws)==1<<k
    acc=sum(1 for w in range(1<<n) if cls.check(int2ba(w,n)))
    mind=min(bin(a^b).count("1") for a,b in itertools.combinations(sorted(cws),2)) if k<=9 else min(bin(a^b).count("1") for a in list(cws)[:64] for b in cws if a!=b)
    print(cls.__name__, "accepted", acc, "expected", 1<<k, "min dist", mind, "advertised", d, "t", round(time.time()-t0,1))
# 16,11,4 all doubles
bad=0
for m in range(2048):
    cw=bitarray(Hamming16114.generate(int2ba(m,11)).tolist())
    for i,j in itertools.combinations(range(16),2):
        c=cw.copy(); c.invert(i); c.invert(j)
        ok,_=Hamming16114.check_and_correct(c)
        if ok: bad+=1
print("16114 doubles reported correctable:", bad, "t", round(time.time()-t0,1))
