import random, logging, traceback
from math import ceil
from okdmr.dmrlib.etsi.layer2.burst import Burst
from okdmr.dmrlib.etsi.layer2.elements.burst_types import BurstTypes
from okdmr.dmrlib.etsi.layer2.elements.data_packet_formats import DataPacketFormats
from okdmr.dmrlib.etsi.layer2.elements.sap_identifier import SAPIdentifier
from okdmr.dmrlib.etsi.layer2.elements.full_message_flag import FullMessageFlag
from okdmr.dmrlib.etsi.layer2.elements.resynchronize_flag import ResynchronizeFlag
from okdmr.dmrlib.etsi.layer2.pdu.data_header import DataHeader
from okdmr.dmrlib.etsi.layer2.pdu.rate12_data import Rate12Data
from okdmr.dmrlib.etsi.layer2.pdu.rate34_data import Rate34Data
from okdmr.dmrlib.etsi.layer2.pdu.rate1_data import Rate1Data
from okdmr.dmrlib.etsi.crc.crc32 import CRC32
from okdmr.dmrlib.transmission.transmission_generator import TransmissionGenerator as TG
from okdmr.dmrlib.transmission.terminal import Terminal
from okdmr.dmrlib.transmission.transmission_observer_interface import TransmissionObserverInterface
logging.disable(logging.CRITICAL)
class Obs(TransmissionObserverInterface):
    def __init__(s): s.ev=[]
    def transmission_started(s, transmission_type): s.ev.append(("start",transmission_type.name))
    def data_transmission_ended(s, transmission_header, blocks): s.ev.append(("dend",transmission_header,list(blocks)))
    def voice_transmission_ended(s, voice_header, blocks): s.ev.append(("vend",voice_header,list(blocks)))
TAB={(Rate1Data,True):(22,18),(Rate1Data,False):(24,20),(Rate12Data,True):(10,6),(Rate12Data,False):(12,8),(Rate34Data,True):(16,12),(Rate34Data,False):(18,14)}
def run(rate, conf, n, csbk, cc, rnd, sap=SAPIdentifier.ShortData):
    payload=bytes(rnd.getrandbits(8) for _ in range(n))
    opb,olb=TAB[(rate,conf)]
    nb=max(1,ceil(1+(n-olb)/opb))
    poc=(nb-1)*opb+olb-n
    hdr=DataHeader(dpf=DataPacketFormats.DataPacketConfirmed if conf else DataPacketFormats.DataPacketUnconfirmed,
        sap_identifier=sap,is_response_requested=conf,pad_octet_count=poc,llid_destination=1234,llid_source=5678,
        blocks_to_follow=nb,full_message_flag=FullMessageFlag.FirstTryToCompletePacket,resynchronize_flag=ResynchronizeFlag(0) if conf else None,
        fragment_sequence_number=8)
    bursts=TG.generate_full_data_transmission(packet_type=rate,userdata=payload,data_header=hdr,csbk_count=csbk,colour_code=cc)
    wire=[b.as_bytes() for b in bursts]
    obs=Obs(); t=Terminal(1234,[obs])
    for w in wire:
        b=Burst.from_bytes(w, BurstTypes.DataAndControl)
        t.process_incoming_burst(b,1)
    return payload,poc,nb,obs.ev,t
rnd=random.Random(3)
import sys
res={}
for rate in (Rate12Data,Rate34Data,Rate1Data):
  for conf in (False,True):
    for n in (0,1,5,6,7,8,9,12,13,20,21,37,100,255):
      for csbk in (0,1,3):
        key=(rate.__name__,conf)
        try:
            payload,poc,nb,ev,t=run(rate,conf,n,csbk,3,rnd)
        except Exception as e:
            res.setdefault(key,[]).append((n,csbk,"EXC "+repr(e)[:100])); continue
        kinds=[e[0] for e in ev]
        ok = kinds==["start","dend"]
        msg=""
        if ok:
            _,h,blocks=ev[1]
            data=b"".join(b.data for b in blocks if isinstance(b,(Rate12Data,Rate34Data,Rate1Data)))
            if data!=payload+b"\0"*poc: msg+=" DATA-MISMATCH"
            last=[b for b in blocks if isinstance(b,(Rate12Data,Rate34Data,Rate1Data))][-1]
            if not last.is_last_block(): msg+=" LAST-NOT-LAST"
            else:
                if last.crc32 != int.from_bytes(CRC32.calculate(data).to_bytes(4,"little"),"big"): msg+=" CRC32-MISMATCH"
            if conf:
                bad=[i for i,b in enumerate([b for b in blocks if isinstance(b,(Rate12Data,Rate34Data,Rate1Data))]) if not b.crc9_ok]
                if bad: msg+=f" CRC9BAD{bad}"
        else: msg=" EVENTS "+str(kinds)
        if t.timeslots[1].transmission.type.name!="Idle": msg+=" NOT-IDLE"
        if msg: res.setdefault(key,[]).append((n,csbk,nb,msg))
for k,v in res.items():
    print(k,len(v)); 
    for x in v[:12]: print("   ",x)
