import random, logging, io, contextlib, collections, traceback, sys
logging.disable(logging.CRITICAL)
from bitarray import bitarray
from bitarray.util import int2ba
from okdmr.dmrlib.etsi.layer2.burst import Burst
from okdmr.dmrlib.etsi.layer2.elements.burst_types import BurstTypes
from okdmr.dmrlib.etsi.layer2.elements.data_types import DataTypes
from okdmr.dmrlib.etsi.layer2.elements.sync_patterns import SyncPatterns
from okdmr.dmrlib.etsi.layer2.elements.data_packet_formats import DataPacketFormats
from okdmr.dmrlib.etsi.layer2.elements.sap_identifier import SAPIdentifier
from okdmr.dmrlib.etsi.layer2.elements.full_message_flag import FullMessageFlag
from okdmr.dmrlib.etsi.layer2.elements.resynchronize_flag import ResynchronizeFlag
from okdmr.dmrlib.etsi.layer2.elements.flcos import FLCOs
from okdmr.dmrlib.etsi.layer2.elements.feature_set_ids import FeatureSetIDs
from okdmr.dmrlib.etsi.layer2.elements.csbk_opcodes import CsbkOpcodes
from okdmr.dmrlib.etsi.layer2.elements.crc_masks import CrcMasks
from okdmr.dmrlib.etsi.layer3.elements.service_options import ServiceOptions
from okdmr.dmrlib.etsi.layer2.pdu.data_header import DataHeader
from okdmr.dmrlib.etsi.layer2.pdu.csbk import CSBK
from okdmr.dmrlib.etsi.layer2.pdu.full_link_control import FullLinkControl
from okdmr.dmrlib.etsi.layer2.pdu.slot_type import SlotType
from okdmr.dmrlib.etsi.layer2.pdu.embedded_signalling import EmbeddedSignalling
from okdmr.dmrlib.etsi.layer2.pdu.rate12_data import Rate12Data
from okdmr.dmrlib.etsi.layer2.pdu.rate34_data import Rate34Data
from okdmr.dmrlib.etsi.layer2.pdu.rate1_data import Rate1Data
from okdmr.dmrlib.etsi.fec.reed_solomon_12_9_4 import ReedSolomon1294
from okdmr.dmrlib.etsi.fec.bptc_196_96 import BPTC19696
from okdmr.dmrlib.etsi.fec.trellis import Trellis34
from okdmr.dmrlib.transmission.terminal import Terminal
from okdmr.dmrlib.transmission.transmission_observer_interface import TransmissionObserverInterface

def data_burst(info196, dt, cc, sync=SyncPatterns.BsSourcedData):
    st=SlotType(colour_code=cc,data_type=dt).as_bits()
    return (info196[:98]+st[:10]+sync.as_bits()+st[10:]+info196[98:]).tobytes()
def lc_burst(rnd, dt, cc):
    flco=rnd.choice([FLCOs.GroupVoiceChannelUser,FLCOs.UnitToUnitVoiceChannelUser])
    body=bitarray([0,0])+flco.as_bits()+int2ba(0,8)+int2ba(rnd.getrandbits(8)&0b11110011,8)+int2ba(rnd.getrandbits(24),24)+int2ba(rnd.getrandbits(24),24)
    mask=(CrcMasks.VoiceLCHeader if dt==DataTypes.VoiceLCHeader else CrcMasks.TerminatorWithLC).value.to_bytes(3,"big")
    full=ReedSolomon1294.generate(body.tobytes(),mask)
    b=bitarray(); b.frombytes(full)
    return data_burst(BPTC19696.encode(b), dt, cc)
def voice_burst(rnd, sync=None, cc=1, lcss=0):
    v=bitarray([rnd.getrandbits(1) for _ in range(216)])
    if sync: center=sync.as_bits()
    else:
        e=EmbeddedSignalling(colour_code=cc,preemption_and_power_control_indicator=0,link_control_start_stop=lcss).as_bits()
        center=e[:8]+bitarray([rnd.getrandbits(1) for _ in range(32)])+e[8:]
    return (v[:108]+center+v[108:]).tobytes()
def hdr_burst(rnd, cc):
    conf=rnd.random()<.5
    sap=rnd.choice([SAPIdentifier.UDP_IP_compression,SAPIdentifier.ShortData,SAPIdentifier.IP_PacketData])
    h=DataHeader(dpf=DataPacketFormats.DataPacketConfirmed if conf else DataPacketFormats.DataPacketUnconfirmed,sap_identifier=sap,is_response_requested=conf,
        pad_octet_count=rnd.randrange(32),llid_destination=rnd.getrandbits(24),llid_source=rnd.getrandbits(24),blocks_to_follow=rnd.choice([0,1,1,2,2,3,5,127]),
        full_message_flag=FullMessageFlag(1),resynchronize_flag=ResynchronizeFlag(0),fragment_sequence_number=8 if not conf else 0)
    return data_burst(BPTC19696.encode(h.as_bits()), DataTypes.DataHeader, cc)
def csbk_burst(rnd, cc, pre=True):
    if pre: c=CSBK(csbko=CsbkOpcodes.PreambleCSBK,blocks_to_follow=rnd.choice([0,1,2,3,4,255]),source_address=1,target_address=2)
    else: c=CSBK(csbko=CsbkOpcodes.BSOutboundActivation,bs_address=5,source_address=9)
    return data_burst(BPTC19696.encode(c.as_bits()), DataTypes.CSBK, cc)
def rate_burst(rnd, cc):
    k=rnd.choice([12,34,1])
    zero=rnd.random()<.4
    def rb(n): return bitarray([0]*n) if zero else bitarray([rnd.getrandbits(1) for _ in range(n)])
    if k==12: return data_burst(BPTC19696.encode(rb(96)), DataTypes.Rate12Data, cc)
    if k==34: return data_burst(Trellis34.encode(rb(144)), DataTypes.Rate34Data, cc)
    b=rb(192); return data_burst(b[:96]+bitarray([0]*4)+b[96:], DataTypes.Rate1Data, cc)

from math import ceil
from okdmr.dmrlib.etsi.crc.crc32 import CRC32
from okdmr.dmrlib.transmission.transmission_generator import TransmissionGenerator as TG
class Obs(TransmissionObserverInterface):
    def __init__(s): s.ev=[]
    def transmission_started(s, transmission_type): s.ev.append(("start",transmission_type.name))
    def data_transmission_ended(s, transmission_header, blocks): s.ev.append(("dend",transmission_header,list(blocks)))
    def voice_transmission_ended(s, voice_header, blocks): s.ev.append(("vend",voice_header,list(blocks)))
TAB={(Rate1Data,True):(22,18),(Rate1Data,False):(24,20),(Rate12Data,True):(10,6),(Rate12Data,False):(12,8),(Rate34Data,True):(16,12),(Rate34Data,False):(18,14)}
def run(rate, conf, n, csbk, cc, rnd, sap=SAPIdentifier.ShortData):
    payload=bytes(rnd.getrandbits(8) for _ in range(n))
    opb,olb=TAB[(rate,conf)]
    nb=max(1,ceil(1+(n-olb)/opb))
    poc=(nb-1)*opb+olb-n
    hdr=DataHeader(dpf=DataPacketFormats.DataPacketConfirmed if conf else DataPacketFormats.DataPacketUnconfirmed,
        sap_identifier=sap,is_response_requested=conf,pad_octet_count=poc,llid_destination=1234,llid_source=5678,
        blocks_to_follow=nb,full_message_flag=FullMessageFlag.FirstTryToCompletePacket,resynchronize_flag=ResynchronizeFlag(0) if conf else None,
        fragment_sequence_number=8)
    bursts=TG.generate_full_data_transmission(packet_type=rate,userdata=payload,data_header=hdr,csbk_count=csbk,colour_code=cc)
    wire=[b.as_bytes() for b in bursts]
    obs=Obs(); t=Terminal(1234,[obs])
    for w in wire:
        b=Burst.from_bytes(w, BurstTypes.DataAndControl)
        t.process_incoming_burst(b,1)
    return payload,poc,nb,obs.ev,t

def gen_data(rnd):
    rate=rnd.choice([Rate12Data,Rate34Data,Rate1Data]); conf=rnd.random()<.5
    opb,olb=TAB[(rate,conf)]
    n=rnd.choice([0,1,olb-1,olb,olb+1,olb+opb-1,olb+opb,olb+opb+1,rnd.randrange(0,200)])
    payload=bytes(rnd.getrandbits(8) for _ in range(n)) if rnd.random()<.7 else bytes(n)
    nb=max(1,ceil(1+(n-olb)/opb)); poc=(nb-1)*opb+olb-n
    hdr=DataHeader(dpf=DataPacketFormats.DataPacketConfirmed if conf else DataPacketFormats.DataPacketUnconfirmed,
        sap_identifier=rnd.choice([SAPIdentifier.ShortData,SAPIdentifier.UDP_IP_compression]),is_response_requested=conf,pad_octet_count=poc,llid_destination=77,llid_source=5678,
        blocks_to_follow=nb,full_message_flag=FullMessageFlag.FirstTryToCompletePacket,resynchronize_flag=ResynchronizeFlag(0) if conf else None,fragment_sequence_number=8)
    bursts=TG.generate_full_data_transmission(packet_type=rate,userdata=payload,data_header=hdr,csbk_count=rnd.randrange(0,5),colour_code=rnd.randrange(16))
    return ("data",(payload,poc,conf),[(b.as_bytes(),BurstTypes.DataAndControl) for b in bursts])
def gen_voice(rnd):
    cc=rnd.randrange(16); out=[(lc_burst(rnd,DataTypes.VoiceLCHeader,cc),BurstTypes.DataAndControl)]
    for sf in range(rnd.randrange(1,4)):
        out.append((voice_burst(rnd,sync=SyncPatterns.BsSourcedVoice),BurstTypes.Vocoder))
        for i in range(5): out.append((voice_burst(rnd,cc=cc,lcss=rnd.randrange(4)),BurstTypes.Vocoder))
    out.append((lc_burst(rnd,DataTypes.TerminatorWithLC,cc),BurstTypes.DataAndControl))
    return ("voice",None,out)
viol=collections.Counter(); ex={}
RATE=(Rate12Data,Rate34Data,Rate1Data)
for seed in range(int(sys.argv[1])):
    rnd=random.Random(seed); obs=Obs(); t=Terminal(77,[obs])
    streams={ts:[ (gen_data if rnd.random()<.6 else gen_voice)(rnd) for _ in range(rnd.randrange(1,5))] for ts in (1,2)}
    pos={1:(0,0),2:(0,0)}; marks={1:[],2:[]}
    def V(k): viol[k]+=1; ex.setdefault(k,seed)
    while any(pos[ts][0]<len(streams[ts]) for ts in (1,2)):
        ts=rnd.choice([x for x in (1,2) if pos[x][0]<len(streams[x])])
        ti,bi=pos[ts]; kind,meta,bl=streams[ts][ti]
        w,bt=bl[bi]
        n0=len(obs.ev)
        with contextlib.redirect_stdout(io.StringIO()):
            t.process_incoming_burst(Burst.from_bytes(w,bt),ts)
        marks[ts]+= [(ti,e) for e in obs.ev[n0:]]
        bi+=1
        if bi==len(bl):
            evs=[e for (i,e) in marks[ts] if i==ti]
            kinds=[e[0] for e in evs]
            if kind=="data":
                if kinds!=["start","dend"] or evs[0][1]!="DataTransmission": V("DATA events "+str(kinds))
                else:
                    payload,poc,conf=meta; blocks=[x for x in evs[1][2] if isinstance(x,RATE)]
                    data=b"".join(x.data for x in blocks)
                    if data!=payload+bytes(poc): V("DATA payload")
                    if evs[1][1].pad_octet_count!=poc: V("POC")
                    if blocks[-1].crc32!=int.from_bytes(CRC32.calculate(data).to_bytes(4,"little"),"big"): V("CRC32")
                    if conf and not all(x.crc9_ok for x in blocks): V("CRC9")
            else:
                if kinds!=["start","vend"] or evs[0][1]!="VoiceTransmission": V("VOICE events "+str(kinds))
            if t.timeslots[ts].transmission.type.name!="Idle": V("NOT IDLE after "+kind)
            ti+=1; bi=0
        pos[ts]=(ti,bi)
for k,v in viol.most_common(): print(v,k,ex[k])
print("done")
