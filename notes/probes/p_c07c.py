exec(open("p_c07.py").read().split("rnd=random.Random(3)")[0])
import sys
rnd=random.Random(9)
bad=[]
for rate in (Rate12Data,Rate34Data,Rate1Data):
  for conf in (False,True):
    opb,olb=TAB[(rate,conf)]
    maxn=126*opb+olb
    for n in sorted({maxn,maxn-1,maxn-opb,min(1500,maxn),1000,777, 126*opb+olb-opb+1}):
      for csbk in (0,16):
        try:
            payload,poc,nb,ev,t=run(rate,conf,n,csbk,15,rnd)
        except Exception as e:
            bad.append((rate.__name__,conf,n,csbk,"EXC "+repr(e)[:120])); continue
        kinds=[e[0] for e in ev]
        if kinds!=["start","dend"]: bad.append((rate.__name__,conf,n,csbk,nb,"EVENTS",kinds)); continue
        blocks=[b for b in ev[1][2] if isinstance(b,(Rate12Data,Rate34Data,Rate1Data))]
        data=b"".join(b.data for b in blocks)
        if data!=payload+bytes(poc): bad.append((rate.__name__,conf,n,csbk,nb,"DATA"))
        if conf and not all(b.crc9_ok for b in blocks): bad.append((rate.__name__,conf,n,csbk,nb,"CRC9"))
print("bad:",bad[:10], len(bad))
# beyond the representable limit
try:
    run(Rate12Data,True,1267,0,1,rnd); print("1267 conf r12: no error")
except Exception as e: print("1267 conf r12:",repr(e)[:100])
