import random, logging, io, contextlib, collections, traceback, sys
logging.disable(logging.CRITICAL)
from bitarray import bitarray
from bitarray.util import int2ba
from okdmr.dmrlib.etsi.layer2.burst import Burst
from okdmr.dmrlib.etsi.layer2.elements.burst_types import BurstTypes
from okdmr.dmrlib.etsi.layer2.elements.data_types import DataTypes
from okdmr.dmrlib.etsi.layer2.elements.sync_patterns import SyncPatterns
from okdmr.dmrlib.etsi.layer2.elements.data_packet_formats import DataPacketFormats
from okdmr.dmrlib.etsi.layer2.elements.sap_identifier import SAPIdentifier
from okdmr.dmrlib.etsi.layer2.elements.full_message_flag import FullMessageFlag
from okdmr.dmrlib.etsi.layer2.elements.resynchronize_flag import ResynchronizeFlag
from okdmr.dmrlib.etsi.layer2.elements.flcos import FLCOs
from okdmr.dmrlib.etsi.layer2.elements.feature_set_ids import FeatureSetIDs
from okdmr.dmrlib.etsi.layer2.elements.csbk_opcodes import CsbkOpcodes
from okdmr.dmrlib.etsi.layer2.elements.crc_masks import CrcMasks
from okdmr.dmrlib.etsi.layer3.elements.service_options import ServiceOptions
from okdmr.dmrlib.etsi.layer2.pdu.data_header import DataHeader
from okdmr.dmrlib.etsi.layer2.pdu.csbk import CSBK
from okdmr.dmrlib.etsi.layer2.pdu.full_link_control import FullLinkControl
from okdmr.dmrlib.etsi.layer2.pdu.slot_type import SlotType
from okdmr.dmrlib.etsi.layer2.pdu.embedded_signalling import EmbeddedSignalling
from okdmr.dmrlib.etsi.layer2.pdu.rate12_data import Rate12Data
from okdmr.dmrlib.etsi.layer2.pdu.rate34_data import Rate34Data
from okdmr.dmrlib.etsi.layer2.pdu.rate1_data import Rate1Data
from okdmr.dmrlib.etsi.fec.reed_solomon_12_9_4 import ReedSolomon1294
from okdmr.dmrlib.etsi.fec.bptc_196_96 import BPTC19696
from okdmr.dmrlib.etsi.fec.trellis import Trellis34
from okdmr.dmrlib.transmission.terminal import Terminal
from okdmr.dmrlib.transmission.transmission_observer_interface import TransmissionObserverInterface

def data_burst(info196, dt, cc, sync=SyncPatterns.BsSourcedData):
    st=SlotType(colour_code=cc,data_type=dt).as_bits()
    return (info196[:98]+st[:10]+sync.as_bits()+st[10:]+info196[98:]).tobytes()
def lc_burst(rnd, dt, cc):
    flco=rnd.choice([FLCOs.GroupVoiceChannelUser,FLCOs.UnitToUnitVoiceChannelUser])
    body=bitarray([0,0])+flco.as_bits()+int2ba(0,8)+int2ba(rnd.getrandbits(8)&0b11110011,8)+int2ba(rnd.getrandbits(24),24)+int2ba(rnd.getrandbits(24),24)
    mask=(CrcMasks.VoiceLCHeader if dt==DataTypes.VoiceLCHeader else CrcMasks.TerminatorWithLC).value.to_bytes(3,"big")
    full=ReedSolomon1294.generate(body.tobytes(),mask)
    b=bitarray(); b.frombytes(full)
    return data_burst(BPTC19696.encode(b), dt, cc)
def voice_burst(rnd, sync=None, cc=1, lcss=0):
    v=bitarray([rnd.getrandbits(1) for _ in range(216)])
    if sync: center=sync.as_bits()
    else:
        e=EmbeddedSignalling(colour_code=cc,preemption_and_power_control_indicator=0,link_control_start_stop=lcss).as_bits()
        center=e[:8]+bitarray([rnd.getrandbits(1) for _ in range(32)])+e[8:]
    return (v[:108]+center+v[108:]).tobytes()
def hdr_burst(rnd, cc):
    conf=rnd.random()<.5
    sap=rnd.choice([SAPIdentifier.UDP_IP_compression,SAPIdentifier.ShortData,SAPIdentifier.IP_PacketData])
    h=DataHeader(dpf=DataPacketFormats.DataPacketConfirmed if conf else DataPacketFormats.DataPacketUnconfirmed,sap_identifier=sap,is_response_requested=conf,
        pad_octet_count=rnd.randrange(32),llid_destination=rnd.getrandbits(24),llid_source=rnd.getrandbits(24),blocks_to_follow=rnd.choice([0,1,1,2,2,3,5,127]),
        full_message_flag=FullMessageFlag(1),resynchronize_flag=ResynchronizeFlag(0),fragment_sequence_number=8 if not conf else 0)
    return data_burst(BPTC19696.encode(h.as_bits()), DataTypes.DataHeader, cc)
def csbk_burst(rnd, cc, pre=True):
    if pre: c=CSBK(csbko=CsbkOpcodes.PreambleCSBK,blocks_to_follow=rnd.choice([0,1,2,3,4,255]),source_address=1,target_address=2)
    else: c=CSBK(csbko=CsbkOpcodes.BSOutboundActivation,bs_address=5,source_address=9)
    return data_burst(BPTC19696.encode(c.as_bits()), DataTypes.CSBK, cc)
def rate_burst(rnd, cc):
    k=rnd.choice([12,34,1])
    zero=rnd.random()<.4
    def rb(n): return bitarray([0]*n) if zero else bitarray([rnd.getrandbits(1) for _ in range(n)])
    if k==12: return data_burst(BPTC19696.encode(rb(96)), DataTypes.Rate12Data, cc)
    if k==34: return data_burst(Trellis34.encode(rb(144)), DataTypes.Rate34Data, cc)
    b=rb(192); return data_burst(b[:96]+bitarray([0]*4)+b[96:], DataTypes.Rate1Data, cc)
class Obs(TransmissionObserverInterface):
    def __init__(s): s.ev=[]
    def transmission_started(s, transmission_type): s.ev.append(("start",transmission_type.name))
    def data_transmission_ended(s, transmission_header, blocks): s.ev.append(("dend",))
    def voice_transmission_ended(s, voice_header, blocks): s.ev.append(("vend",))
sig=collections.Counter(); ex={}
for seed in range(int(sys.argv[1])):
    rnd=random.Random(seed)
    obs=Obs(); t=Terminal(77,[obs])
    hist=[]
    for i in range(rnd.randrange(1,25)):
        k=rnd.choice(["vh","term","vs","ve","hdr","pre","csbk","rate","rate"])
        cc=rnd.randrange(16)
        w={"vh":lambda:lc_burst(rnd,DataTypes.VoiceLCHeader,cc),"term":lambda:lc_burst(rnd,DataTypes.TerminatorWithLC,cc),
           "vs":lambda:voice_burst(rnd,sync=rnd.choice([SyncPatterns.BsSourcedVoice,SyncPatterns.MsSourcedVoice])),"ve":lambda:voice_burst(rnd,cc=cc,lcss=rnd.randrange(4)),
           "hdr":lambda:hdr_burst(rnd,cc),"pre":lambda:csbk_burst(rnd,cc),"csbk":lambda:csbk_burst(rnd,cc,False),"rate":lambda:rate_burst(rnd,cc)}[k]()
        hist.append(k)
        try:
            bt=BurstTypes.Vocoder if k in("vs","ve") else BurstTypes.DataAndControl
            b=Burst.from_bytes(w,bt)
        except Exception as e:
            sig["PARSE "+k+" "+type(e).__name__+str(e)[:60]]+=1; continue
        try:
            with contextlib.redirect_stdout(io.StringIO()):
                t.process_incoming_burst(b, rnd.choice([1,2]))
        except Exception as e:
            tb=traceback.extract_tb(e.__traceback__)[-1]
            s=f"PROC {type(e).__name__} {tb.filename.split('/')[-1]}:{tb.lineno} {str(e)[:70]}"
            sig[s]+=1; ex.setdefault(s,(seed,list(hist)))
            break
for s,c in sig.most_common(): print(c,s, ex.get(s))
