import random, logging, io, contextlib, collections, traceback, sys
logging.disable(logging.CRITICAL)
from bitarray import bitarray
from bitarray.util import int2ba
from okdmr.dmrlib.etsi.layer2.burst import Burst
from okdmr.dmrlib.etsi.layer2.elements.burst_types import BurstTypes
from okdmr.dmrlib.etsi.layer2.elements.data_types import DataTypes
from okdmr.dmrlib.etsi.layer2.elements.sync_patterns import SyncPatterns
from okdmr.dmrlib.etsi.layer2.elements.data_packet_formats import DataPacketFormats
from okdmr.dmrlib.etsi.layer2.elements.sap_identifier import SAPIdentifier
from okdmr.dmrlib.etsi.layer2.elements.full_message_flag import FullMessageFlag
from okdmr.dmrlib.etsi.layer2.elements.resynchronize_flag import ResynchronizeFlag
from okdmr.dmrlib.etsi.layer2.elements.flcos import FLCOs
from okdmr.dmrlib.etsi.layer2.elements.feature_set_ids import FeatureSetIDs
from okdmr.dmrlib.etsi.layer2.elements.csbk_opcodes import CsbkOpcodes
from okdmr.dmrlib.etsi.layer2.elements.crc_masks import CrcMasks
from okdmr.dmrlib.etsi.layer3.elements.service_options import ServiceOptions
from okdmr.dmrlib.etsi.layer2.pdu.data_header import DataHeader
from okdmr.dmrlib.etsi.layer2.pdu.csbk import CSBK
from okdmr.dmrlib.etsi.layer2.pdu.full_link_control import FullLinkControl
from okdmr.dmrlib.etsi.layer2.pdu.slot_type import SlotType
from okdmr.dmrlib.etsi.layer2.pdu.embedded_signalling import EmbeddedSignalling
from okdmr.dmrlib.etsi.layer2.pdu.rate12_data import Rate12Data
from okdmr.dmrlib.etsi.layer2.pdu.rate34_data import Rate34Data
from okdmr.dmrlib.etsi.layer2.pdu.rate1_data import Rate1Data
from okdmr.dmrlib.etsi.fec.reed_solomon_12_9_4 import ReedSolomon1294
from okdmr.dmrlib.etsi.fec.bptc_196_96 import BPTC19696
from okdmr.dmrlib.etsi.fec.trellis import Trellis34
from okdmr.dmrlib.transmission.terminal import Terminal
from okdmr.dmrlib.transmission.transmission_observer_interface import TransmissionObserverInterface

def data_burst(info196, dt, cc, sync=SyncPatterns.BsSourcedData):
    st=SlotType(colour_code=cc,data_type=dt).as_bits()
    return (info196[:98]+st[:10]+sync.as_bits()+st[10:]+info196[98:]).tobytes()
def lc_burst(rnd, dt, cc):
    flco=rnd.choice([FLCOs.GroupVoiceChannelUser,FLCOs.UnitToUnitVoiceChannelUser])
    body=bitarray([0,0])+flco.as_bits()+int2ba(0,8)+int2ba(rnd.getrandbits(8)&0b11110011,8)+int2ba(rnd.getrandbits(24),24)+int2ba(rnd.getrandbits(24),24)
    mask=(CrcMasks.VoiceLCHeader if dt==DataTypes.VoiceLCHeader else CrcMasks.TerminatorWithLC).value.to_bytes(3,"big")
    full=ReedSolomon1294.generate(body.tobytes(),mask)
    b=bitarray(); b.frombytes(full)
    return data_burst(BPTC19696.encode(b), dt, cc)
def voice_burst(rnd, sync=None, cc=1, lcss=0):
    v=bitarray([rnd.getrandbits(1) for _ in range(216)])
    if sync: center=sync.as_bits()
    else:
        e=EmbeddedSignalling(colour_code=cc,preemption_and_power_control_indicator=0,link_control_start_stop=lcss).as_bits()
        center=e[:8]+bitarray([rnd.getrandbits(1) for _ in range(32)])+e[8:]
    return (v[:108]+center+v[108:]).tobytes()
def hdr_burst(rnd, cc):
    from okdmr.dmrlib.etsi.layer2.elements.defined_data_formats import DefinedDataFormats
    from okdmr.dmrlib.etsi.layer2.elements.sarq import SARQ
    from okdmr.dmrlib.etsi.layer2.elements.udt_format import UDTFormat
    from okdmr.dmrlib.etsi.layer2.elements.supplementary_flag import SupplementaryFlag
    from okdmr.dmrlib.etsi.layer3.elements.udt_option_flag import UDTOptionFlag
    R=rnd; DPF=DataPacketFormats
    f=R.choice(["conf","unconf","resp","sdd","udt"])
    common=dict(llid_destination=R.getrandbits(24),llid_source=R.getrandbits(24),sap_identifier=R.choice(list(SAPIdentifier)))
    btf=R.choice([0,1,1,2,2,3,5,127])
    if f=="conf": h=DataHeader(dpf=DPF.DataPacketConfirmed,is_group=R.random()<.5,is_response_requested=R.random()<.5,pad_octet_count=R.randrange(32),full_message_flag=FullMessageFlag(R.randrange(2)),blocks_to_follow=btf,resynchronize_flag=ResynchronizeFlag(R.randrange(2)),send_sequence_number=R.randrange(8),fragment_sequence_number=R.randrange(16),**common)
    elif f=="unconf": h=DataHeader(dpf=DPF.DataPacketUnconfirmed,is_group=R.random()<.5,is_response_requested=R.random()<.5,pad_octet_count=R.randrange(32),full_message_flag=FullMessageFlag(R.randrange(2)),blocks_to_follow=btf,fragment_sequence_number=R.randrange(16),**common)
    elif f=="resp": h=DataHeader(dpf=DPF.ResponsePacket,is_response_requested=R.random()<.5,full_message_flag=FullMessageFlag(R.randrange(2)),blocks_to_follow=btf,response_class=R.randrange(4),response_type=R.randrange(8),response_status=R.randrange(8),**common)
    elif f=="sdd": h=DataHeader(dpf=DPF.ShortDataDefined,is_group=R.random()<.5,is_response_requested=R.random()<.5,appended_blocks=min(btf,63),defined_data_format=R.choice(list(DefinedDataFormats)),sarq=SARQ(R.randrange(2)),full_message_flag=FullMessageFlag(R.randrange(2)),bit_padding=int2ba(R.getrandbits(8),8),**common)
    else: h=DataHeader(dpf=DPF.UnifiedDataTransport,is_group=R.random()<.5,is_response_requested=R.random()<.5,is_emergency=R.random()<.5,udt_option_flag=UDTOptionFlag(R.randrange(2)),udt_format=R.choice(list(UDTFormat)),pad_nibbles_count=R.randrange(32),appended_blocks=R.randrange(4),supplementary_flag=SupplementaryFlag(R.randrange(2)),udt_opcode=R.choice(list(CsbkOpcodes)),**common)
    return data_burst(BPTC19696.encode(h.as_bits()), DataTypes.DataHeader, cc)
def csbk_burst(rnd, cc, pre=True):
    if pre: c=CSBK(csbko=CsbkOpcodes.PreambleCSBK,blocks_to_follow=rnd.choice([0,1,2,3,4,255]),source_address=1,target_address=2)
    else: c=CSBK(csbko=CsbkOpcodes.BSOutboundActivation,bs_address=5,source_address=9)
    return data_burst(BPTC19696.encode(c.as_bits()), DataTypes.CSBK, cc)
def rate_burst(rnd, cc):
    k=rnd.choice([12,34,1])
    zero=rnd.random()<.4
    def rb(n): return bitarray([0]*n) if zero else bitarray([rnd.getrandbits(1) for _ in range(n)])
    if k==12: return data_burst(BPTC19696.encode(rb(96)), DataTypes.Rate12Data, cc)
    if k==34: return data_burst(Trellis34.encode(rb(144)), DataTypes.Rate34Data, cc)
    b=rb(192); return data_burst(b[:96]+bitarray([0]*4)+b[96:], DataTypes.Rate1Data, cc)

import okdmr.dmrlib.transmission.transmission as TM
class FakeSecrets:
    n=0
    @classmethod
    def token_bytes(cls,k): cls.n+=1; return cls.n.to_bytes(k,"big")
TM.secrets=FakeSecrets
from okdmr.dmrlib.etsi.layer2.elements.voice_bursts import VoiceBursts
class Obs(TransmissionObserverInterface):
    def __init__(s): s.ev=[]
    def transmission_started(s, transmission_type): s.ev.append(("start",transmission_type.name))
    def data_transmission_ended(s, transmission_header, blocks): s.ev.append(("end","DataTransmission",transmission_header,list(blocks)))
    def voice_transmission_ended(s, voice_header, blocks): s.ev.append(("end","VoiceTransmission",voice_header,list(blocks)))
viol=collections.Counter(); ex={}
def V(k,seed,hist):
    viol[k]+=1; ex.setdefault(k,(seed,list(hist)))
for seed in range(int(sys.argv[1])):
    rnd=random.Random(seed)
    obs=Obs(); t=Terminal(77,[obs])
    hist=[]
    unmatched={1:collections.Counter(),2:collections.Counter()}
    seq={1:0,2:0}; lastlabel={1:None,2:None}; win={1:[],2:[]}; hdrs={1:{},2:{}}
    for i in range(rnd.randrange(1,40)):
        k=rnd.choice(["vh","term","vs","ve","ve","ve","hdr","pre","csbk","rate","rate"])
        cc=rnd.randrange(16)
        w={"vh":lambda:lc_burst(rnd,DataTypes.VoiceLCHeader,cc),"term":lambda:lc_burst(rnd,DataTypes.TerminatorWithLC,cc),
           "vs":lambda:voice_burst(rnd,sync=rnd.choice([SyncPatterns.BsSourcedVoice,SyncPatterns.MsSourcedVoice])),"ve":lambda:voice_burst(rnd,cc=cc,lcss=rnd.randrange(4)),
           "hdr":lambda:hdr_burst(rnd,cc),"pre":lambda:csbk_burst(rnd,cc),"csbk":lambda:csbk_burst(rnd,cc,False),"rate":lambda:rate_burst(rnd,cc)}[k]()
        ts=rnd.choice([1,1,1,2])
        hist.append((k,ts))
        bt=BurstTypes.Vocoder if k in("vs","ve") else BurstTypes.DataAndControl
        try: b=Burst.from_bytes(w,bt)
        except Exception as e:
            viol['PARSE '+type(e).__name__+' '+str(e)[:50]]+=1; ex.setdefault('PARSE '+type(e).__name__+' '+str(e)[:50],(seed,k)); continue
        n0=len(obs.ev); tr=t.timeslots[ts].transmission; sid0=tr.stream_no; type0=tr.type.name
        try:
            with contextlib.redirect_stdout(io.StringIO()):
                out=t.process_incoming_burst(b, ts)
        except Exception as e:
            V("RAISE "+type(e).__name__,seed,hist); break
        ended=False
        kind={"hdr":"H","pre":"C","csbk":"C","rate":"R"}.get(k)
        def key_of(x):
            from okdmr.dmrlib.etsi.layer2.pdu.csbk import CSBK as _C
            if isinstance(x,_C): return ("C",x.as_bits().to01())
            if isinstance(x,DataHeader): return ("H",x.as_bits().to01())
            return ("R",x.data.hex())
        mykey=None
        if kind in("H","C"): mykey=(kind,b.data.as_bits().to01())
        elif kind=="R": mykey=("R",b.info_bits_deinterleaved.tobytes().hex())
        evs=obs.ev[n0:]
        # replay events in order relative to this burst's pdu
        appended=False
        for e in evs:
            if e[0]=="start":
                win[ts]=[]; hdrs[ts]={}
            else:
                got=[key_of(x) for x in e[3]]
                cands=[win[ts], win[ts]+([mykey] if mykey else [])]
                def same(a,bb):
                    if len(a)!=len(bb): return False
                    for x,y in zip(a,bb):
                        if x[0]!=y[0]: return False
                        if x[0]=="R":
                            if x[1] not in y[1] and y[1] not in x[1]: return False
                        elif x[1]!=y[1]: return False
                    return True
                if not any(same(got,c) for c in cands): V("BLOCKS-MISMATCH "+e[1]+" got%d win%d"%(len(got),len(win[ts])),seed,hist)
                hk=e[2]
                exp_h=hdrs[ts].get("H" if e[1]=="DataTransmission" else "V")
                cur=("H",b.data.as_bits().to01()) if k=="hdr" else (("V",b.data.as_bits().to01()) if k=="vh" else None)
                gotk=(("H" if e[1]=="DataTransmission" else "V"), hk.as_bits().to01())
                if gotk!=exp_h and gotk!=cur: V("HEADER-MISMATCH "+e[1],seed,hist)
                win[ts]=[]; hdrs[ts]={}
        if mykey and tr.type.name!="Idle" or (mykey and not evs): 
            if not (evs and evs[-1][0]=="end"): win[ts].append(mykey)
        if k=="hdr": hdrs[ts]["H"]=("H",b.data.as_bits().to01())
        if k=="vh": hdrs[ts]["V"]=("V",b.data.as_bits().to01())
        if evs and evs[-1][0]=="end": hdrs[ts]={}; win[ts]=[]
        for e in obs.ev[n0:]:
            if e[0]=="start": unmatched[ts][e[1]]+=1
            else:
                ended=True
                if unmatched[ts][e[1]]<1: V("END-WITHOUT-START "+e[1],seed,hist)
                else: unmatched[ts][e[1]]=0
        if ended:
            last=obs.ev[-1]
            if last[0]=="end" and tr.type.name!="Idle": V("NOT-IDLE-AFTER-END",seed,hist)
            if tr.stream_no==sid0: V("STREAM-NOT-FRESH",seed,hist)
            if obs.ev[-1][0]=="end" and tr.blocks: V("BLOCKS-NOT-EMPTY",seed,hist)
        exp=(seq[ts]+1)&255
        if out.sequence_no!=exp: V(f"SEQ got {out.sequence_no} exp {exp}",seed,hist)
        seq[ts]=0 if ended else exp
        # labels
        if type0=="VoiceTransmission" or tr.type.name=="VoiceTransmission":
            pass
        if k in ("vs","ve") and type0=="VoiceTransmission":
            if k=="vs": 
                if out.voice_burst!=VoiceBursts.VoiceBurstA: V("SYNC-NOT-A",seed,hist)
            elif lastlabel[ts] is not None and lastlabel[ts]!=VoiceBursts.Unknown:
                nxt=VoiceBursts.VoiceBurstA if lastlabel[ts]==VoiceBursts.VoiceBurstF else VoiceBursts(lastlabel[ts].value+1)
                if out.voice_burst!=nxt: V(f"LABEL {lastlabel[ts]}->{out.voice_burst}",seed,hist)
            lastlabel[ts]=out.voice_burst
        else:
            lastlabel[ts]=None if type0!="VoiceTransmission" else VoiceBursts.Unknown
for s,c in viol.most_common(): print(c,s, ex.get(s))
print("done")
