import random, itertools, time
from okdmr.dmrlib.etsi.fec.reed_solomon_12_9_4 import ReedSolomon1294 as RS
def gmul(a,b):
    r=0
    while b:
        if b&1: r^=a
        a<<=1
        if a&0x100: a^=0x11D
        b>>=1
    return r
bad=sum(1 for a in range(256) for b in range(256) if RS.log_multiply(a,b)!=gmul(a,b)); print("mult mismatches",bad)
def gpow(a,n):
    r=1
    for _ in range(n): r=gmul(r,a)
    return r
def synd(word):  # word[0] highest degree
    out=[]
    for j in (1,2,3):
        a=gpow(2,j); s=0
        for c in word: s=gmul(s,a)^c
        out.append(s)
    return out
R=random.Random(1); t=time.time()
msgs=[bytes(9)]+[bytes([0]*i+[v]+[0]*(8-i)) for i in range(9) for v in (1,2,0x80,0xFF)]+[bytes(R.getrandbits(8) for _ in range(9)) for _ in range(50)]
nz=0; und=0; tot=0
for m in msgs:
    for mask in (b"\0\0\0", bytes.fromhex("969696"), bytes.fromhex("999999")):
        w=RS.generate(m,mask); assert w[:9]==m and len(w)==12 and RS.check(w,mask)
        un=w[:9]+bytes(a^b for a,b in zip(w[9:],mask))
        if synd(un)!=[0,0,0]: nz+=1
    mask=bytes.fromhex("969696"); w=RS.generate(m,mask)
    for i in range(12):
        for v in range(1,256):
            c=bytearray(w); c[i]^=v; tot+=1
            if RS.check(bytes(c),mask): und+=1
    for _ in range(3000):
        k=R.choice([2,3]); c=bytearray(w)
        for i in R.sample(range(12),k): c[i]^=R.randrange(1,256)
        tot+=1
        if RS.check(bytes(c),mask): und+=1
print("nonzero syndromes",nz,"undetected",und,"of",tot,"t",round(time.time()-t,1))
