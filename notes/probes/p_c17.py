import logging
logging.disable(logging.CRITICAL)
from okdmr.dmrlib.protocols.hytera.rrs_datagram_protocol import RRSDatagramProtocol
from okdmr.dmrlib.hytera.pdu.hstrp import HSTRP, HSTRPPacketType, HSTRPOptions, HSTRPOptionType
from okdmr.dmrlib.hytera.pdu.radio_registration_service import *
from okdmr.dmrlib.hytera.pdu.radio_ip import RadioIP
import asyncio
class T(asyncio.DatagramTransport):
    def __init__(s): super().__init__(); s.out=[]
    def sendto(s,data,addr=None): s.out.append((bytes(data),addr))
    def is_closing(s): return False
def mk():
    h=RRSDatagramProtocol(3002); t=T(); h.connection_made(t); return h,t
h,t=mk()
A=("10.0.0.1",3002)
def show(lbl,d):
    n=len(t.out)
    try:
        r=h.datagram_received(d,A)
    except Exception as e:
        r="RAISED "+repr(e)
    print(lbl, d.hex(), "->", [x[0].hex() for x in t.out[n:]], "conn",h.hstrp_connected, "ret", r if isinstance(r,str) else (r[0], type(r[1]).__name__))
show("connect", HSTRP(HSTRPPacketType(is_connect=True),sn=0).as_bytes())
show("connect+opt", bytes.fromhex("324200240000830400000001"+"040101"))
show("ackconnect", HSTRP(HSTRPPacketType(is_connect=True,is_ack=True),sn=0).as_bytes())
show("heartbeat", HSTRP(HSTRPPacketType(is_heartbeat=True),sn=0).as_bytes())
show("close", HSTRP(HSTRPPacketType(is_close=True),sn=0).as_bytes())
show("ackclose", HSTRP(HSTRPPacketType(is_close=True,is_ack=True),sn=0).as_bytes())
show("heartbeat-disc", HSTRP(HSTRPPacketType(is_heartbeat=True),sn=0).as_bytes())
rrs=RadioRegistrationService(opcode=RRSTypes.RadioRegistrationRequest, radio_ip=RadioIP(radio_id=1234))
o=HSTRPOptions().add_option(HSTRPOptionType.DeviceID,(5).to_bytes(4,"big")).add_option(HSTRPOptionType.ChannelID,b"\x01")
d=HSTRP(HSTRPPacketType(have_options=True),sn=7,options=o,payload=rrs).as_bytes()
show("rrs reg", d)
show("rrs reg noopt", HSTRP(HSTRPPacketType(have_options=True),sn=8,payload=rrs).as_bytes())
show("type0 data", HSTRP(HSTRPPacketType(),sn=9,payload=rrs).as_bytes())
off=RadioRegistrationService(opcode=RRSTypes.RadioGoingOffline, radio_ip=RadioIP(radio_id=1234))
show("rrs off", HSTRP(HSTRPPacketType(have_options=True),sn=10,options=o,payload=off).as_bytes())
print(h.registry)
show("ack data", HSTRP(HSTRPPacketType(have_options=True,is_ack=True),sn=10,options=o).as_bytes())
show("reject", HSTRP(HSTRPPacketType(is_reject=True),sn=10).as_bytes())
show("trunc", d[:9]); show("trunc5", d[:5]); show("garbage", b"\x00"*20); show("empty", b"")
show("trunc-mid", d[:20])
h.sn=0xFFFD
for i in range(3): show("rrs reg wrap", d)
# two handlers ping-pong
h1,t1=mk(); h2,t2=mk()
msgs=[(2,HSTRP(HSTRPPacketType(is_connect=True),sn=0).as_bytes())]
n=0
while msgs and n<50:
    dst,m=msgs.pop(0); n+=1
    hh,tt=(h1,t1) if dst==1 else (h2,t2)
    k=len(tt.out); hh.datagram_received(m,A)
    for o_,_ in tt.out[k:]: msgs.append((3-dst,o_))
print("pingpong deliveries", n, "remaining", len(msgs))
