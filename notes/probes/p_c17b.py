import logging, random, collections, sys, asyncio
logging.disable(logging.CRITICAL)
from okdmr.dmrlib.protocols.hytera.rrs_datagram_protocol import RRSDatagramProtocol
from okdmr.dmrlib.hytera.pdu.hstrp import HSTRP, HSTRPPacketType, HSTRPOptions, HSTRPOptionType
from okdmr.dmrlib.hytera.pdu.radio_registration_service import *
from okdmr.dmrlib.hytera.pdu.radio_ip import RadioIP
from okdmr.dmrlib.hytera.pdu.text_message_protocol import TextMessageProtocol
class T(asyncio.DatagramTransport):
    def __init__(s): super().__init__(); s.out=[]
    def sendto(s,data,addr=None): s.out.append((bytes(data),addr))
    def is_closing(s): return False
def opts(rnd):
    o=HSTRPOptions()
    o.add_option(HSTRPOptionType.DeviceID, rnd.getrandbits(32).to_bytes(4,"big"))
    if rnd.random()<.7: o.add_option(HSTRPOptionType.ChannelID, bytes([rnd.randrange(1,3)]))
    if rnd.random()<.2: o.add_option(HSTRPOptionType.RTP, b"")
    return o
def classify(d):
    # independent header classifier
    if len(d)<6 or d[0:2]!=b"2B": return None
    t=d[3]; return dict(opt=bool(t&0x20),rej=bool(t&0x10),close=bool(t&8),conn=bool(t&4),hb=bool(t&2),ack=bool(t&1),sn=int.from_bytes(d[4:6],"big"))
viol=collections.Counter(); ex={}
for seed in range(int(sys.argv[1])):
    rnd=random.Random(seed); h=RRSDatagramProtocol(3002); t=T(); h.connection_made(t); h.sn=rnd.choice([0,0xFFFD,rnd.randrange(65535)])
    conn=False; reg={}; hist=[]
    def V(k): viol[k]+=1; ex.setdefault(k,(seed,list(hist)))
    ips=[RadioIP(radio_id=rnd.randrange(1,1<<24)) for _ in range(3)]
    for i in range(rnd.randrange(1,30)):
        k=rnd.choice(["conn","conno","close","hb","reg","off","chk","ackc","ackx","ackd","rej","tmp","t0reg"])
        sn=rnd.randrange(65536); A=("10.0.0.%d"%rnd.randrange(1,4),3002); ip=rnd.choice(ips)
        mk=lambda **kw: HSTRPPacketType(**kw)
        rrs=lambda op: RadioRegistrationService(opcode=op, radio_ip=ip)
        d={"conn":lambda:HSTRP(mk(is_connect=True),sn=0).as_bytes(),
           "conno":lambda:HSTRP(mk(is_connect=True,have_options=True),sn=0,options=opts(rnd)).as_bytes(),
           "close":lambda:HSTRP(mk(is_close=True),sn=0).as_bytes(),
           "hb":lambda:HSTRP(mk(is_heartbeat=True),sn=0).as_bytes(),
           "reg":lambda:HSTRP(mk(have_options=True),sn=sn,options=opts(rnd),payload=rrs(RRSTypes.RadioRegistrationRequest)).as_bytes(),
           "off":lambda:HSTRP(mk(have_options=True),sn=sn,options=opts(rnd),payload=rrs(RRSTypes.RadioGoingOffline)).as_bytes(),
           "chk":lambda:HSTRP(mk(have_options=True),sn=sn,options=opts(rnd),payload=rrs(RRSTypes.RegistrationStatusCheckRequest)).as_bytes(),
           "ackc":lambda:HSTRP(mk(is_connect=True,is_ack=True),sn=0).as_bytes(),
           "ackx":lambda:HSTRP(mk(is_close=True,is_ack=True),sn=0).as_bytes(),
           "ackd":lambda:HSTRP(mk(have_options=True,is_ack=True),sn=sn,options=opts(rnd)).as_bytes(),
           "rej":lambda:HSTRP(mk(is_reject=True),sn=sn).as_bytes(),
           "tmp":lambda:HSTRP(mk(have_options=True),sn=sn,options=opts(rnd),payload=TextMessageProtocol.from_bytes(bytes.fromhex("0980a1000e000000010a0000050a00000161006a03"))).as_bytes() ,
           "t0reg":lambda:HSTRP(mk(),sn=sn,payload=rrs(RRSTypes.RadioRegistrationRequest)).as_bytes()}[k]()
        f=rnd.random()
        if f<.1: d=d[:rnd.randrange(len(d))]; k+="~trunc"
        elif f<.2:
            b=bytearray(d); j=rnd.randrange(len(b)*8); b[j//8]^=1<<(j%8); d=bytes(b); k+="~flip%d"%j
        hist.append((k,d.hex()))
        n0=len(t.out)
        try: h.datagram_received(d,A)
        except Exception as e: V("RAISE "+type(e).__name__+str(e)[:40]); break
        out=t.out[n0:]
        c=classify(d)
        clean="~" not in k
        if clean:
            base=k
            acks=[o for o,a in out if (classify(o) or {}).get("ack")]
            if base in("conn","conno","close","reg","off","chk","tmp","t0reg"):
                if len(acks)!=1: V(f"ACKCOUNT {base} {len(acks)}")
                else:
                    ca=classify(acks[0])
                    if ca["sn"]!=c["sn"] or ca["rej"]: V("ACK-SN/REJ "+base)
                if any(a!=A for _,a in out): V("DEST")
            if base in("ackc","ackx","ackd") and out: V("ACK-ANSWERED "+base)
            if base=="hb":
                if conn and len(out)!=1: V("HB-NOECHO")
                if not conn and out: V("HB-ECHO-DISC")
            if base in("conn","conno"): conn=True
            if base=="close": conn=False
            if base in ("ackc","ackx"): conn=h.hstrp_connected
            if base in("reg","t0reg"):
                reg[str(ip)]="Online"
                ans=[o for o,a in out if not classify(o)["ack"]]
                if len(ans)!=1: V("REGANSWER count %d"%len(ans))
                else:
                    o=ans[0]
                    if not(o[6]==0x11 and o[8]==0x80 and o[11:15]==ip.as_bytes() and o[15]==0): V("REGANSWER content")
            if base=="off": reg[str(ip)]="Offline"
            if h.hstrp_connected!=conn: V("CONNFLAG "+base)
            if {k_:v.name for k_,v in h.registry.items()}!=reg: V("REGISTRY "+base)
        else:
            # resync model on faulted datagrams
            conn=h.hstrp_connected; reg={k_:v.name for k_,v in h.registry.items()}
            if c and c["ack"] and out: V("ACK-ANSWERED corrupted")
for s,c in viol.most_common(): print(c,s,ex[s][0],ex[s][1][-2:])
print("done")
