import logging, asyncio, random, collections, traceback
logging.disable(logging.CRITICAL)
from okdmr.dmrlib.protocols.hytera.p2p_datagram_protocol import P2PDatagramProtocol as P2P
from okdmr.dmrlib.protocols.hytera.rdac_datagram_protocol import RDACDatagramProtocol as RDAC
from okdmr.dmrlib.storage.repeater_storage import RepeaterStorage
from okdmr.dmrlib.storage.repeater import Repeater
Repeater.read_snmp_values=lambda self,*a,**k: {}
class T(asyncio.DatagramTransport):
    def __init__(s): super().__init__(); s.out=[]
    def sendto(s,data,addr=None): s.out.append((bytes(data),addr))
    def is_closing(s): return False
    def get_extra_info(s,n,d=None): return d
st=RepeaterStorage(); p=P2P(st); t=T(); p.connection_made(t)
def cmd(typ, rid=1, n=32):
    d=bytearray(n); d[0:3]=b"P2P"; d[4]=rid; d[20]=typ; return bytes(d)
def ping(): 
    d=bytearray(20); d[4:9]=P2P.PING_PREFIX; return bytes(d)
A=("10.1.1.1",50000); B=("10.1.1.2",50000)
def show(lbl,d,a):
    n=len(t.out)
    try: p.datagram_received(d,a); r=""
    except Exception as e: r="RAISED "+repr(e)
    print(lbl,a,[(x.hex()[:50],ad) for x,ad in t.out[n:]],r, "len",len(st))
show("dmr unreg",cmd(0x11),A); show("rdac unreg",cmd(0x12),A); show("ping unreg",ping(),A)
show("reg",cmd(0x10),A)
show("dmr reg",cmd(0x11),A); show("rdac reg",cmd(0x12),A); show("ping reg",ping(),A)
show("dmr B",cmd(0x11),B); show("ping short reg", ping()[:10], A); show("reg id255", cmd(0x10,rid=255), B); show("unknown cmd", cmd(0x33), A); show("garbage", b"xx", A); show("empty", b"", A)
show("ack", bytes(4)+P2P.ACK_PREFIX+bytes(12), A)
print([ (r.address_in, r.address_out, r.attr("p2p_is_registered")) for r in st.all()])
# RDAC
done=[]
r=RDAC(st, callback=lambda u: done.append(u)); t2=T(); r.connection_made(t2)
R=("10.1.1.1",50002)
seq=[b"\x00", RDAC.STEP0_RESPONSE+b"x", RDAC.STEP1_RESPONSE, RDAC.STEP2_RESPONSE+bytes(30), RDAC.STEP3_RESPONSE, RDAC.STEP4_RESPONSE_1, RDAC.STEP4_RESPONSE_2+bytes(220), RDAC.STEP6_RESPONSE, RDAC.STEP7_RESPONSE_1, RDAC.STEP7_RESPONSE_2+bytes(40), RDAC.STEP10_RESPONSE_1, RDAC.STEP10_RESPONSE_2, RDAC.STEP12_RESPONSE, b"\x00", b"zz"]
for d in seq:
    n=len(t2.out)
    try: r.datagram_received(d,R); e=""
    except Exception as ex: e="RAISED "+repr(ex)
    print(d[:6].hex(), "-> step", r.step.get(R[0]), "sent", [x.hex()[:12] for x,_ in t2.out[n:]], e, "done", len(done))
