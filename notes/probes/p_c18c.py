import logging, asyncio, random, collections, sys
logging.disable(logging.CRITICAL)
from okdmr.dmrlib.protocols.hytera.p2p_datagram_protocol import P2PDatagramProtocol as P2P
from okdmr.dmrlib.protocols.hytera.rdac_datagram_protocol import RDACDatagramProtocol as RDAC
from okdmr.dmrlib.storage.repeater_storage import RepeaterStorage
from okdmr.dmrlib.storage.repeater import Repeater
SNMPFAIL=[False]
def _snmp(self,*a,**k):
    if SNMPFAIL[0]: raise TimeoutError('snmp')
    return {}
Repeater.read_snmp_values=_snmp
class T(asyncio.DatagramTransport):
    def __init__(s): super().__init__(); s.out=[]
    def sendto(s,data,addr=None): s.out.append((bytes(data),addr))
    def is_closing(s): return False
    def get_extra_info(s,n,d=None): return d
def cmd(typ, rid=1, n=32, rnd=None):
    d=bytearray(rnd.getrandbits(8) for _ in range(n)) if rnd else bytearray(n); d[0:3]=b"P2P"; d[4]=rid; d[20]=typ
    if d[4:9]==P2P.PING_PREFIX: d[5]=1
    return bytes(d)
EXP={0:None,1:RDAC.STEP0_RESPONSE,2:RDAC.STEP1_RESPONSE,3:RDAC.STEP2_RESPONSE,4:RDAC.STEP3_RESPONSE,5:RDAC.STEP4_RESPONSE_1,6:RDAC.STEP4_RESPONSE_2,7:RDAC.STEP6_RESPONSE,8:RDAC.STEP7_RESPONSE_1,10:RDAC.STEP7_RESPONSE_2,11:RDAC.STEP10_RESPONSE_1,12:RDAC.STEP10_RESPONSE_2,13:RDAC.STEP12_RESPONSE}
NEXT={0:1,1:2,2:3,3:4,4:5,5:6,6:7,7:8,8:10,10:11,11:12,12:13,13:14}
viol=collections.Counter(); ex={}
for seed in range(int(sys.argv[1])):
    rnd=random.Random(seed); st=RepeaterStorage(); p=P2P(st); t=T(); p.connection_made(t)
    done=[]; r=RDAC(st, callback=lambda u: done.append(u)); t2=T(); r.connection_made(t2)
    registered=set(); step={}; comp=collections.Counter(); hist=[]
    def V(k): viol[k]+=1; ex.setdefault(k,(seed,list(hist)))
    IPS=["10.1.1.%d"%i for i in range(1,4)]
    for i in range(rnd.randrange(1,80)):
        ip=rnd.choice(IPS)
        if rnd.random()<.5:
            A=(ip, rnd.choice([50000,50000,50001,50002]))
            SNMPFAIL[0]=rnd.random()<.3
            k=rnd.choice(["reg","dmr","rdac","ping","ack","unk","garb","reg255","pingshort"])
            d={"reg":lambda:cmd(0x10,rnd.randrange(255),rnd.randrange(21,40),rnd),"dmr":lambda:cmd(0x11,rnd.randrange(255),rnd.randrange(21,40),rnd),"rdac":lambda:cmd(0x12,rnd.randrange(255),rnd.randrange(21,40),rnd),
               "ping":lambda:bytes(4)+P2P.PING_PREFIX+bytes(rnd.randrange(6,20)),"pingshort":lambda:bytes(4)+P2P.PING_PREFIX+bytes(rnd.randrange(0,6)),"ack":lambda:bytes(4)+P2P.ACK_PREFIX+bytes(12),"unk":lambda:cmd(0x44),"garb":lambda:bytes(rnd.getrandbits(8) for _ in range(rnd.randrange(0,30))),
               "reg255":lambda:cmd(0x10,255)}[k]()
            hist.append(("p2p",k,A)); n0=len(t.out); raised=False
            try: p.datagram_received(d,A)
            except Exception as e: raised=True
            out=t.out[n0:]
            # classify by actual bytes (garbage may be anything)
            iscmd=d[:3]==b"P2P"; typ=d[20] if len(d)>20 else 0; isping=(not iscmd) and d[4:9]==P2P.PING_PREFIX
            if iscmd and typ==0x10:
                if not raised: registered.add(A)
                if len(out)>1: V("REG multi")
            elif (iscmd and typ in(0x11,0x12)) or isping:
                if A not in registered:
                    if out!=[(b"\x00",A)]: V("UNREG not single reject "+k+str(out)[:60])
                else:
                    for o,a in out:
                        if o==b"\x00": V("REG'd got reject")
                        rp=st.match_incoming(A)
                        if a not in (rp.address_out, A, (A[0],p.p2p_port)): V("DEST")
                    if not raised and ((isping and len(out)!=1) or ((not isping) and len(out)!=2)): V("COUNT "+k)
            else:
                if out: V("UNSOLICITED "+k)
        else:
            A=(ip,50002); s0=step.get(ip,0); SNMPFAIL[0]=False
            k=rnd.choice(["exp","exp","exp","exp","other","reset","garb"])
            if k=="exp": d=(EXP[s0] or b"hello")+bytes(rnd.randrange(220,260)) if s0!=14 else b"xx"
            elif k=="other": d=EXP[rnd.choice([1,2,3,13])]+bytes(240)
            elif k=="reset": d=bytes([rnd.choice([0,1,255])])
            else: d=bytes(rnd.getrandbits(8) for _ in range(rnd.randrange(2,300)))
            hist.append(("rdac",k,ip,s0)); before=dict(r.step); nd=len(done); raised=False
            try: r.datagram_received(d,A)
            except Exception as e: raised=True
            for y in IPS:
                if y!=ip and r.step.get(y)!=before.get(y): V("OTHER-PEER-STEP")
            s1=r.step.get(ip)
            if len(d)==1 and s0!=14: exp1={1}
            elif s0==14: exp1={14}
            elif s0==0: exp1={1}
            else: exp1={NEXT[s0]} if d[:4]==EXP[s0] else {s0}
            if raised: exp1=exp1|{s0}
            if s1 not in exp1: V(f"STEP {s0}->{s1} exp {exp1} {k} raised={raised}")
            step[ip]=s1
            if s0==13 and s1==14:
                if len(done)!=nd+1: V("NO-CALLBACK")
            elif len(done)!=nd: V("SPURIOUS-CALLBACK")
        ids=[x.id for x in st.all()]; ai=[x.address_in for x in st.all()]
        if len(set(ids))!=len(ids) or len(set(ai))!=len(ai): V("STORAGE-DUP")
for s,c in viol.most_common(): print(c,s,ex[s][0],ex[s][1][-3:])
print("done")
