import random, copy, logging
logging.disable(logging.CRITICAL)
from bitarray import bitarray
from bitarray.util import int2ba
from okdmr.dmrlib.etsi.crc.crc import BitCrcCalculator, Crc9, Crc16, Crc7
from okdmr.dmrlib.etsi.crc.crc8 import CRC8
from okdmr.dmrlib.etsi.crc.crc9 import CRC9
from okdmr.dmrlib.etsi.crc.crc16 import CRC16
from okdmr.dmrlib.etsi.crc.crc32 import CRC32
from okdmr.dmrlib.etsi.layer2.elements.crc_masks import CrcMasks
from okdmr.dmrlib.etsi.fec.bptc_196_96 import BPTC19696
from okdmr.dmrlib.etsi.fec.trellis import Trellis34
from okdmr.dmrlib.etsi.fec.vbptc_128_72 import VBPTC12873
from okdmr.dmrlib.etsi.fec.vbptc_68_28 import VBPTC6828
from okdmr.dmrlib.etsi.fec.vbptc_32_11 import VBPTC3211
from okdmr.dmrlib.etsi.fec.hamming_15_11_3 import Hamming15113
from okdmr.dmrlib.etsi.fec.golay_20_8_7 import Golay2087
from okdmr.dmrlib.etsi.fec.reed_solomon_12_9_4 import ReedSolomon1294
from okdmr.dmrlib.etsi.layer2.burst import Burst
from okdmr.dmrlib.etsi.layer2.pdu.csbk import CSBK
from okdmr.dmrlib.etsi.layer2.elements.csbk_opcodes import CsbkOpcodes
from okdmr.dmrlib.hytera.pdu.hrnp import HRNP
from okdmr.dmrlib.hytera.pdu.hstrp import HSTRP
from okdmr.dmrlib.motorola.mbxml import MBXML
from okdmr.dmrlib.utils.bits_bytes import byteswap_bytes
rb=lambda r,n: bitarray([r.getrandbits(1) for _ in range(n)])
R=random.Random(5)
POOL={"b96":[rb(R,96) for _ in range(3)],"b144":[rb(R,144) for _ in range(3)],"by":[bytes(R.getrandbits(8) for _ in range(n)) for n in (0,1,7,10,12,33)],
      "b72":[rb(R,72)],"b28":[rb(R,28)],"b11":[rb(R,11)],"bn":[rb(R,n) for n in (0,1,8,9,13,87,100)]}
SMS="55e105fbbde427040a68305294fdff57d75df5dcae42369824097da3bedb329255"
bitw=BitCrcCalculator(Crc9.ETSI_DMR, table_based=False); tabw=BitCrcCalculator(Crc9.ETSI_DMR, table_based=True)
CALLS={
 "crc9bit":lambda a: bitw.calculate_checksum(a).to01(), "crc9tab":lambda a: tabw.calculate_checksum(a).to01(),
 "crc16":lambda a: CRC16.calculate(a,CrcMasks.CSBK), "crc32":lambda a: CRC32.calculate(a), "crc32ba":lambda a: CRC32.calculate(bytearray(a)),
 "crc8":lambda a: CRC8.calculate(a), "crc9p":lambda a: CRC9.calculate_from_parts(a,3,CrcMasks.Rate12DataContinuation,b"\1\2\3\4"),
 "bptc":lambda a: BPTC19696.encode(a).to01(), "bptcdec":lambda a: BPTC19696.deinterleave_data_bits(BPTC19696.encode(a)).to01(),
 "trel":lambda a: Trellis34.decode(Trellis34.encode(a)).to01(), "v128":lambda a: VBPTC12873.encode(a).to01(), "v68":lambda a: VBPTC6828.encode(a).to01(), "v32":lambda a: VBPTC3211.encode(a).to01(),
 "burst":lambda a: repr(Burst.from_bytes(bytes.fromhex(SMS))), "burstdef":lambda a: Burst().full_bits.to01(),
 "swap":lambda a: byteswap_bytes(a), "swapba":lambda a: byteswap_bytes(bytearray(a)),
 "csbk":lambda a: CSBK(csbko=CsbkOpcodes.PreambleCSBK,blocks_to_follow=3).as_bits().to01(),
 "rs":lambda a: ReedSolomon1294.generate((a+bytes(9))[:9]),
}
ARG={"crc9bit":"bn","crc9tab":"bn","crc16":"by","crc32":"by","crc32ba":"by","crc8":"bn","crc9p":"by","bptc":"b96","bptcdec":"b96","trel":"b144","v128":"b72","v68":"b28","v32":"b11","burst":"by","burstdef":"by","swap":"by","swapba":"by","csbk":"by","rs":"by"}
first={}; bad=set()
for it in range(4000):
    k=R.choice(list(CALLS)); i=R.randrange(len(POOL[ARG[k]])); a=POOL[ARG[k]][i]
    a0=copy.deepcopy(a)
    try: r=("ok",CALLS[k](a))
    except Exception as e: r=("exc",type(e).__name__)
    if a!=a0: bad.add(("ARGMUT",k)); POOL[ARG[k]][i]=a0
    key=(k,i)
    if key in first and first[key]!=r: bad.add(("HIST",k,i))
    first.setdefault(key,r)
print("impurities:", bad, "distinct calls", len(first), "exceptions", sorted({k for k,v in first.items() if v[0]=="exc"}))
