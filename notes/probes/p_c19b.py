import random, copy, logging, io, contextlib
logging.disable(logging.CRITICAL)
from okdmr.dmrlib.hytera.pdu.hdap import HDAP
from okdmr.dmrlib.hytera.pdu.hrnp import HRNP
from okdmr.dmrlib.hytera.pdu.hstrp import HSTRP
from okdmr.dmrlib.hytera.hytera_ipsc import HyteraIPSC
from okdmr.dmrlib.etsi.layer2.burst import Burst
from okdmr.dmrlib.motorola.mbxml import MBXML
from okdmr.dmrlib.motorola.text_messaging_service import TextMessagingService
from okdmr.dmrlib.motorola.automatic_registration_service import AutomaticRegistrationService
from okdmr.dmrlib.hytera.pdu.radio_control_protocol import RadioControlProtocol, RCPOpcode
from okdmr.dmrlib.hytera.pdu.location_protocol import LocationProtocol, LocationProtocolSpecificService
from okdmr.dmrlib.hytera.pdu.radio_ip import RadioIP
V={"hdap":["08a0020032000000010a2110dd0000413138333634383236313031354e343731382e383035314530313835342e34333837302e313132310b03","024108050000d20400000e03","0245b810000100040004000000fd080000fa372300c303","0980a10022000000010a01b2070a03640e4f004c004900560045005200200054004500530054007a03","09c0a200120003000000020a01b2070a03000000010203e203","11000300040a000064bd03"],
 "hstrp":["32420020000183040001869f04010211000300040a000064bd03","324200000001024108050000d20400000e03","32420020000b830400066b0e0401010245b810000100040004000000fd080000fa372300c303","324200050000"],
 "ipsc":["5a5a5a5a0000000042000501010000001111eeee555511114028000000000000000000006f0023003700fa00342a2c10942a2c10f42a2c10835600f0360801006f000000fa372300","5a5a5a5a610400004100050102000000222211115555000040b970078009fc078821205220655d5457ff5dd7d8f57854d004d03e003e012a036500f3800901006f000000fc372300"],
 "mbxml":["071A22042468ACE0341F4DBC778051118ECD8D118AD47B00636C0006","070C22042468ACE0390503515355","090922042468ACE034313C","0D0F22042468ACE066118ECD8D118AD47B","1315232F341F4AD07B2E66474326660A4D56E46B0B5620","0d162204c00000005148610c340ad0ecf70c126c003656a2"],
 "ars":["0007F0200231310000","0010F5000231310939393939393939393900"],
}
def mb(h):
    docs=MBXML.from_bytes(bytes.fromhex(h)); return [MBXML.as_bytes(d).hex() for d in docs]+[repr(d) for d in docs]
CALLS={"hdap":lambda h:(lambda o:(o.as_bytes().hex(),repr(o),len(o)))(HDAP.from_bytes(bytes.fromhex(h))),
 "hstrp":lambda h:(lambda o:(o.as_bytes().hex(),repr(o)))(HSTRP.from_bytes(bytes.fromhex(h))),
 "ipsc":lambda h:(lambda b:(repr(b),b.as_bytes().hex(),b.source_radio_id,b.target_radio_id))(Burst.from_hytera_ipsc(bytes.fromhex(h))),
 "mbxml":mb,
 "ars":lambda h:(lambda o:(o.as_bytes().hex(),repr(o)))(AutomaticRegistrationService.from_bytes(bytes.fromhex(h))),
 "rcpdef":lambda h: repr(vars(RadioControlProtocol(opcode=RCPOpcode.RadioStatusReportRequest)) if hasattr(RCPOpcode,"RadioStatusReportRequest") else 0)[:0],
}
R=random.Random(3); first={}; bad=set(); exc=set()
for it in range(6000):
    k=R.choice([k for k in CALLS if k in V]); i=R.randrange(len(V[k])); h=V[k][i]
    if R.random()<.3:
        b=bytearray(bytes.fromhex(h)); j=R.randrange(len(b)*8); b[j//8]^=1<<(j%8); h=b.hex(); key=(k,i,j)
    else: key=(k,i,-1)
    try:
        with contextlib.redirect_stdout(io.StringIO()): r=("ok",CALLS[k](h))
    except Exception as e: r=("exc",type(e).__name__); exc.add((k,type(e).__name__))
    if key in first and first[key]!=r: bad.add(key)
    first.setdefault(key,r)
print("impure:",bad); print("distinct",len(first)); print("exc kinds",sorted(exc))
