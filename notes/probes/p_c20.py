import random, logging, collections, sys, uuid
logging.disable(logging.CRITICAL)
from okdmr.dmrlib.storage.repeater_storage import RepeaterStorage
from okdmr.dmrlib.storage.repeater import Repeater
FIELDS=["dmr_id","callsign","serial","address_in","address_out","address_nat","snmp_enabled","nat_enabled"]
DYN=["k1","k2","p2p_is_registered","rx_freq"]
ADDRS=[("10.0.0.1",50000),("10.0.0.1",50002),("10.0.0.2",50000),("10.0.0.2",50002)]
def snap(r): return {f:getattr(r,f) for f in FIELDS}|{"@"+k:r.attr(k) for k in DYN}
viol=collections.Counter(); ex={}
for seed in range(int(sys.argv[1])):
    rnd=random.Random(seed); st=RepeaterStorage(); model=[]  # list of dict(id, snap)
    hist=[]
    def V(k): viol[k]+=1; ex.setdefault(k,(seed,list(hist)))
    def mfind(addr):
        for m in model:
            if m["s"]["address_in"]==addr: return m
    def rndpatch():
        d={}
        for _ in range(rnd.randrange(0,3)):
            if rnd.random()<.5:
                f=rnd.choice(FIELDS)
                d[f]={"dmr_id":rnd.randrange(5),"callsign":rnd.choice(["A","B"]),"serial":rnd.choice(["s1","s2"]),"address_in":rnd.choice(ADDRS),"address_out":rnd.choice(ADDRS),"address_nat":rnd.choice(ADDRS),"snmp_enabled":rnd.random()<.5,"nat_enabled":rnd.random()<.5}[f]
            else: d["@"+rnd.choice(DYN)]=rnd.choice([1,2,"x",True,0,False])
        return d
    def mpatch(m,d):
        for k,v in d.items(): m["s"][k]=v
    def real(d): return {k.lstrip("@"):v for k,v in d.items()}
    for i in range(rnd.randrange(1,60)):
        op=rnd.choice(["mi","mi","mi_c","save","attr","del","patch","mattr","mip","muuid"])
        hist.append(op)
        n0=len(st)
        try:
            if op in("mi","mi_c"):
                a=rnd.choice(ADDRS); d=rndpatch() if rnd.random()<.5 else None
                ac=(op=="mi_c")
                m=mfind(a)
                if m is None and not ac:
                    # library: save(None, patch) -> with patch nonempty raises AttributeError
                    try:
                        r=st.match_incoming(a, auto_create=False, **({"patch":real(d)} if d is not None else {}))
                        if r is not None: V("MISS-RETURNED-OBJ")
                    except AttributeError: 
                        if not d: V("MISS-RAISED-NO-PATCH")
                    if len(st)!=n0: V("GREW-WITHOUT-AUTOCREATE")
                    continue
                r=st.match_incoming(a, auto_create=ac, **({"patch":real(d)} if d is not None else {}))
                if m is None:
                    if len(st)!=n0+1: V("NO-CREATE")
                    m={"id":r.id,"s":{f:getattr(Repeater(),f) for f in FIELDS}|{"@"+k:None for k in DYN}}; m["s"]["address_in"]=a; m["s"]["dmr_id"]=None; model.append(m)
                else:
                    if len(st)!=n0: V("GREW-ON-HIT")
                if r.id!=m["id"]: V("ID-MISMATCH")
                if d: mpatch(m,d)
            elif model:
                m=rnd.choice(model); r=st.match_uuid(m["id"])
                if r.id!=m["id"]: V("UUID-MISMATCH")
                if op=="save":
                    d=rndpatch(); st.save(r, real(d)); mpatch(m,d)
                elif op=="attr":
                    k=rnd.choice(DYN); v=rnd.choice([1,"y",True,0]); r.attr(k,v); m["s"]["@"+k]=v
                elif op=="del":
                    k=rnd.choice(DYN)
                    try:
                        r.delete_attr(k); m["s"]["@"+k]=None
                    except KeyError: pass
                elif op=="patch":
                    d=rndpatch(); r.patch(real(d)); mpatch(m,d)
                elif op=="mattr":
                    f=rnd.choice(["dmr_id","callsign"]); v=m["s"][f]; r2=st.match_attr(f,v)
                    first=[x for x in model if x["s"][f]==v][0]
                    if r2.id!=first["id"]: V("MATTR-NOT-FIRST")
                elif op=="mip":
                    ip=m["s"]["address_in"][0]; r2=st.match_ip_incoming(ip)
                    first=[x for x in model if x["s"]["address_in"][0]==ip][0]
                    if r2.id!=first["id"]: V("MIP-NOT-FIRST")
        except Exception as e:
            V("RAISE "+op+" "+type(e).__name__+" "+str(e)[:50]); break
        if len(st)!=len(model): V("LEN")
        ids=[r.id for r in st.all()]
        if len(set(ids))!=len(ids): V("DUP-ID")
        for m in model:
            r=st.match_uuid(m["id"])
            if snap(r)!=m["s"]: V("SNAPSHOT"); break
for s,c in viol.most_common(): print(c,s,ex[s])
print("done")
