import os, time, pickle, sys
t0=time.time()
import okdmr.dmrlib.etsi.layer2.burst, okdmr.dmrlib.motorola.mbxml, okdmr.dmrlib.hytera.pdu.hrnp, okdmr.dmrlib.transmission.transmission_generator
print("import s", time.time()-t0)
from okdmr.dmrlib.etsi.crc.crc16 import CRC16
from okdmr.dmrlib.etsi.layer2.elements.crc_masks import CrcMasks
def fresh(fn,*a):
    r,w=os.pipe()
    pid=os.fork()
    if pid==0:
        os.close(r)
        try: res=("ok",fn(*a))
        except BaseException as e: res=("exc",type(e).__name__)
        os.write(w,pickle.dumps(res)); os._exit(0)
    os.close(w)
    buf=b""
    while True:
        c=os.read(r,65536)
        if not c: break
        buf+=c
    os.close(r); os.waitpid(pid,0)
    return pickle.loads(buf)
t=time.time()
for i in range(200): fresh(CRC16.calculate, bytes([i]*10), CrcMasks.CSBK)
print("fork call ms", (time.time()-t)/200*1e3)
