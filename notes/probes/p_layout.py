# verify per-PDU code-order maps: reference GF(2) division over message bits in code order must reproduce the wire check bits
import random
from bitarray import bitarray
from bitarray.util import int2ba
import importlib
c4=importlib.import_module("p_c04b") if False else None
exec(open("p_c04b.py").read().split("viol=collections.Counter()")[0])   # reuse KINDS/mk from probe
def ref_rem(bits, poly, w):
    r=0
    for b in bits:
        top=(r>>(w-1))&1
        r=((r<<1)&((1<<w)-1))
        if top^b: r^=poly
    return r
MAP={}
def m_dh(n): return list(range(80)), list(range(80,96)), 0x1021,16
def m_slc(n): return list(range(28)), list(range(35,27,-1)), 0x07,8
def m_rate(n): return list(range(16,n))+list(range(0,7)), list(range(15,6,-1)), 0x59,9
MAP.update({"dh":m_dh,"pi":m_dh,"slc":m_slc})
for k in ("r12c","r12cl","r34c","r34cl","r1c","r1cl"): MAP[k]=m_rate
from okdmr.dmrlib.etsi.layer2.elements.crc_masks import CrcMasks
import collections
res=collections.Counter()
for kind,(mk,ser,par,ind,w,maxw) in KINDS.items():
    if kind=="hrnp": continue
    for t in range(200):
        o=mk(); wire=ser(o); n=len(wire)
        msgpos,crcpos,poly,width=MAP[kind](n)
        rem=ref_rem([wire[i] for i in msgpos],poly,width)
        got=0
        for i in crcpos: got=(got<<1)|wire[i]
        x=rem^got
        res[(kind,hex(x))]+=1
for k,v in sorted(res.items()): print(k,v)
print({m.name:hex(m.value) for m in CrcMasks})
