import asyncio, heapq, random
class SimLoop(asyncio.BaseEventLoop):
    def __init__(self):
        super().__init__(); self._now=0.0; self._clock_resolution=1e-9
    def time(self): return self._now
    def _process_events(self, ev): pass
    def _write_to_self(self): pass
    def _run_once(self):
        # drop cancelled timers
        while self._scheduled and self._scheduled[0]._cancelled:
            h=heapq.heappop(self._scheduled); h._scheduled=False
        if not self._ready and self._scheduled:
            self._now=max(self._now, self._scheduled[0]._when)
        while self._scheduled and self._scheduled[0]._when<=self._now:
            h=heapq.heappop(self._scheduled); h._scheduled=False; self._ready.append(h)
        if not self._ready and not self._scheduled:
            self._stopping=True
        n=len(self._ready)
        for _ in range(n):
            h=self._ready.popleft()
            if not h._cancelled: h._run()
loop=SimLoop(); asyncio.set_event_loop(loop)
log=[]
async def ticker(name, dt, n):
    for i in range(n):
        await asyncio.sleep(dt); log.append((loop.time(), name, i))
async def main():
    t1=loop.create_task(ticker("a",5,4), name="a"); t2=loop.create_task(ticker("b",3,5), name="b")
    await asyncio.gather(t1,t2)
import time; t=time.time()
loop.run_until_complete(main())
print(log, "wall", time.time()-t)
