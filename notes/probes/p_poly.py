def order(poly, w):
    # order of x modulo g(x) = x^w + poly
    g=(1<<w)|poly
    r=1; n=0
    while True:
        r<<=1; n+=1
        if r>>w & 1: r^=g
        if r==1: return n
        if n>1<<20: return None
for name,poly,w in (("crc7",0x27,7),("crc8",0x07,8),("crc9",0x59,9),("ccitt",0x1021,16)):
    print(name, "order", order(poly,w), "x+1 factor:", (bin((1<<w)|poly).count("1")%2==0))
# min weight of multiples of g within length n (brute force weight<=3) for crc9 at n=96,144,192+? 
def undetectable(poly,w,n,maxw=3):
    import itertools
    g=(1<<w)|poly
    rem=[]
    r=1
    for i in range(n):
        rem.append(r); r<<=1
        if r>>w &1: r^=g
    bad={1:0,2:0,3:0}
    for i in range(n):
        if rem[i]==0: bad[1]+=1
    for i,j in itertools.combinations(range(n),2):
        if rem[i]^rem[j]==0: bad[2]+=1
    s={}
    for i in range(n): s.setdefault(rem[i],[]).append(i)
    for i,j in itertools.combinations(range(n),2):
        x=rem[i]^rem[j]
        for k in s.get(x,[]):
            if k>j: bad[3]+=1
    return bad
for n in (96,144,192): print("crc9 n",n, undetectable(0x59,9,n))
print("crc8 n36", undetectable(0x07,8,36)); print("ccitt n96", undetectable(0x1021,16,96))
