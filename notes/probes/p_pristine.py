# spike: pristine template server. parent <-> template over pipes; template forks a grandchild per request.
import os, sys, pickle, struct, time
def send(fd,obj):
    b=pickle.dumps(obj); os.write(fd,struct.pack("<I",len(b))+b)
def recv(fd):
    h=b""
    while len(h)<4:
        c=os.read(fd,4-len(h))
        if not c: return None
        h+=c
    n=struct.unpack("<I",h)[0]; b=b""
    while len(b)<n: b+=os.read(fd,n-len(b))
    return pickle.loads(b)
def registry():
    from okdmr.dmrlib.etsi.crc.crc16 import CRC16
    from okdmr.dmrlib.etsi.layer2.elements.crc_masks import CrcMasks
    from okdmr.dmrlib.etsi.layer2.burst import Burst
    return {"crc16":lambda a: CRC16.calculate(a,CrcMasks.CSBK), "burstdef":lambda a: Burst().full_bits.to01()}
def template(rfd,wfd):
    reg=registry()   # import only, no calls
    while True:
        req=recv(rfd)
        if req is None: os._exit(0)
        r,w=os.pipe(); pid=os.fork()
        if pid==0:
            os.close(r)
            name,arg=req
            try: res=("ok",reg[name](arg))
            except BaseException as e: res=("exc",type(e).__name__)
            send(w,res); os._exit(0)
        os.close(w); res=recv(r); os.close(r); os.waitpid(pid,0)
        send(wfd,res)
p2t_r,p2t_w=os.pipe(); t2p_r,t2p_w=os.pipe()
pid=os.fork()
if pid==0:
    os.close(p2t_w); os.close(t2p_r); template(p2t_r,t2p_w)
os.close(p2t_r); os.close(t2p_w)
reg=registry()
# dirty the parent on purpose
from okdmr.dmrlib.etsi.layer2.burst import Burst
Burst().full_bits[0]=1
print("dirty parent burstdef:", reg["burstdef"](None)[:8])
send(p2t_w,("burstdef",None)); print("pristine burstdef:", recv(t2p_r)[1][:8])
t=time.time()
for i in range(500):
    send(p2t_w,("crc16",bytes([i&255]*10))); r=recv(t2p_r)
print("roundtrip ms", (time.time()-t)/500*1e3, r)
os.close(p2t_w); os.waitpid(pid,0)
