import time, itertools
from bitarray import bitarray
from bitarray.util import int2ba
from okdmr.dmrlib.etsi.fec.hamming_17_12_3 import Hamming17123
from okdmr.dmrlib.etsi.fec.hamming_16_11_4 import Hamming16114
from okdmr.dmrlib.etsi.fec.golay_20_8_7 import Golay2087
from okdmr.dmrlib.etsi.fec.reed_solomon_12_9_4 import ReedSolomon1294
from okdmr.dmrlib.etsi.layer2.pdu.slot_type import SlotType
from okdmr.dmrlib.etsi.layer2.pdu.embedded_signalling import EmbeddedSignalling
N=20000
t=time.time()
for i in range(N): Golay2087.check(int2ba(i,20))
print("golay check us", (time.time()-t)/N*1e6)
t=time.time()
for i in range(2048): Hamming16114.generate(int2ba(i,11))
print("h16 gen us", (time.time()-t)/2048*1e6)
t=time.time()
for i in range(N): Hamming16114.check_and_correct(int2ba(i,16))
print("h16 cc us", (time.time()-t)/N*1e6)
t=time.time()
for i in range(N): SlotType.from_bits(int2ba(i*37,20))
print("slottype from_bits us", (time.time()-t)/N*1e6)
t=time.time()
for i in range(N): EmbeddedSignalling.from_bits(int2ba(i,16))
print("emb from_bits us", (time.time()-t)/N*1e6)
t=time.time()
for i in range(N): ReedSolomon1294.generate(bytes([i&255]*9))
print("rs gen us", (time.time()-t)/N*1e6)
# H16114 double errors
cw=bitarray(Hamming16114.generate(int2ba(1234,11)).tolist())
mis=0; unc=0
for i,j in itertools.combinations(range(16),2):
    c=cw.copy(); c.invert(i); c.invert(j)
    ok,fixed=Hamming16114.check_and_correct(c)
    if ok: mis+=1
    else: unc+=1
print("h16114 double: reported-correctable", mis, "uncorrectable", unc)
