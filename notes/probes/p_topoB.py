# spike: two real RRS handlers on a virtual-time loop, A runs periodic_maintenance (active peer)
import asyncio, heapq, logging, random, sys
logging.disable(logging.CRITICAL)
from okdmr.dmrlib.protocols.hytera.rrs_datagram_protocol import RRSDatagramProtocol
class SimLoop(asyncio.BaseEventLoop):
    def __init__(self): super().__init__(); self._now=0.0; self._clock_resolution=1e-9; self.steps=0
    def time(self): return self._now
    def _process_events(self, ev): pass
    def _write_to_self(self): pass
    def _run_once(self):
        while self._scheduled and self._scheduled[0]._cancelled:
            h=heapq.heappop(self._scheduled); h._scheduled=False
        if not self._ready and self._scheduled: self._now=max(self._now,self._scheduled[0]._when)
        while self._scheduled and self._scheduled[0]._when<=self._now:
            h=heapq.heappop(self._scheduled); h._scheduled=False; self._ready.append(h)
        if not self._ready and not self._scheduled: self._stopping=True
        for _ in range(len(self._ready)):
            h=self._ready.popleft(); self.steps+=1
            if not h._cancelled: h._run()
class Net:
    def __init__(s,loop,rnd): s.loop=loop; s.rnd=rnd; s.nodes={}; s.log=[]; s.faults=True
    def send(s,src,dst,data):
        if dst not in s.nodes: s.log.append((s.loop.time(),"noroute",dst)); return
        if s.faults and s.rnd.random()<.1: s.log.append((s.loop.time(),"drop",data.hex())); return
        d=0.01+s.rnd.random()*0.05
        s.loop.call_later(d, s.deliver, src,dst,data)
        if s.faults and s.rnd.random()<.1: s.loop.call_later(2*d, s.deliver, src,dst,data)
    def deliver(s,src,dst,data):
        s.log.append((round(s.loop.time(),3),"deliver",src,dst,data.hex()))
        s.nodes[dst].datagram_received(data,src)
class Tr(asyncio.DatagramTransport):
    def __init__(s,net,me): super().__init__(); s.net=net; s.me=me
    def sendto(s,data,addr=None): s.net.send(s.me,addr,bytes(data))
    def is_closing(s): return False
seed=int(sys.argv[1]); rnd=random.Random(seed)
loop=SimLoop(); asyncio.set_event_loop(loop); net=Net(loop,rnd)
A=("10.0.0.1",3002); B=("192.168.22.18",3002)
ha=RRSDatagramProtocol(3002,be_active_peer=True); hb=RRSDatagramProtocol(3002)
net.nodes={A:ha,B:hb}; ha.connection_made(Tr(net,A)); hb.connection_made(Tr(net,B))
async def main():
    t=loop.create_task(ha.periodic_maintenance(),name="maint-A")
    await asyncio.sleep(60)
    t.cancel(); net.faults=False
    n0=len([l for l in net.log if l[1]=="deliver"])
    await asyncio.sleep(30)
    n1=len([l for l in net.log if l[1]=="deliver"])
    return n0,n1
try:
    n0,n1=loop.run_until_complete(asyncio.wait_for(main(),timeout=1000))
    print("seed",seed,"deliveries during 60s:",n0,"after faults stop (30s):",n1-n0,"A.connected",ha.hstrp_connected,"B.connected",hb.hstrp_connected,"loop steps",loop.steps)
except Exception as e: print("EXC",repr(e))
