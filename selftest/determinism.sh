#!/bin/sh
# Determinism self-test: every run of every check, executed twice in fresh interpreters with another
# PYTHONHASHSEED and another worker count, must produce the same event-log digest.
# usage: selftest/determinism.sh [scale] [seed]      (evidence files are NOT touched: VERIF_EVIDENCE_DIR points to a scratch dir)
cd "$(dirname "$0")/.." || exit 2
scale=${1:-0.05}; seed=${2:-7}
out=$(mktemp -d /tmp/determ-XXXXXX)
fail=0
for id in C02 C04 C06 C07 C08 C11 C17 C18 C19 C20; do
  VERIF_EVIDENCE_DIR=$out VERIF_SCALE=$scale VERIF_HASHSEED=0 ./check $id --tier quick --seed $seed --workers 16 --digests $out/$id.a.json >/dev/null 2>&1
  VERIF_EVIDENCE_DIR=$out VERIF_SCALE=$scale VERIF_HASHSEED=12345 ./check $id --tier quick --seed $seed --workers 3 --digests $out/$id.b.json >/dev/null 2>&1
  /venv/bin/python - "$out/$id.a.json" "$out/$id.b.json" "$id" <<'PY' || fail=1
import json, sys
a, b = json.load(open(sys.argv[1])), json.load(open(sys.argv[2]))
keys = sorted(set(a) & set(b))
diff = [k for k in keys if a[k] != b[k]]
print(f"{sys.argv[3]}: {len(keys)} runs compared (hashseed 0/16 workers vs hashseed 12345/3 workers), {len(diff)} digests differ" + (f" e.g. {diff[:3]}" if diff else ""))
sys.exit(1 if diff or not keys or len(a) != len(b) else 0)
PY
done
rm -rf "$out"
[ $fail = 0 ] && echo "DETERMINISM OK" || echo "DETERMINISM FAILED"
exit $fail
