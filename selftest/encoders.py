#!/usr/bin/env python3
"""The C17 stimulus factory encodes HSTRP/RRS datagrams by hand (independent of the library).  This self-test checks, on the tree
under test, that the hand encoder and the library's encoder agree byte for byte for the same field values, and that every
well-formed class is parsed by the library into the fields it was built from."""
import os, random, sys
V = os.path.dirname(os.path.dirname(os.path.abspath(__file__)))
sys.path.insert(0, V)
from dsim import core
core.use_repo()
from checks import c17
from okdmr.dmrlib.hytera.pdu.hstrp import HSTRP, HSTRPPacketType as PT, HSTRPOptions
from okdmr.dmrlib.hytera.pdu.radio_ip import RadioIP
from okdmr.dmrlib.hytera.pdu.radio_registration_service import RadioRegistrationService as RRS, RRSTypes

r = random.Random(3)
bad = n = 0
for i in range(4000):
    cls = r.choice(c17.CLASSES + c17.EXTRA_CLASSES)
    data, meta = c17.build(cls, r, [r.randrange(1, 1 << 24) for _ in range(2)])
    p = HSTRP.from_bytes(data)
    n += 1
    ok = p is not None and p.as_bytes() == data and p.sn == meta["sn"]
    if "radio" in meta:
        ok = ok and isinstance(p.payload, RRS) and p.payload.radio_ip.radio_id == meta["radio"] and p.payload.radio_ip.subnet == 10
        # library-built twin with the same fields
        twin = HSTRP(PT.from_bytes(data[3:4]), sn=meta["sn"], options=HSTRPOptions.from_bytes(data[6:6 + meta["optlen"]]) if meta["optlen"] else None,
                     payload=RRS(opcode=p.payload.opcode, radio_ip=RadioIP(radio_id=meta["radio"]), is_reliable=p.payload.is_reliable, result=p.payload.result,
                                 renew_time_seconds=p.payload.renew_time_seconds, radio_state=p.payload.radio_state), version=data[2])
        ok = ok and twin.as_bytes() == data
    if not ok:
        bad += 1
        print("MISMATCH", cls, data.hex(), meta, p.as_bytes().hex() if p else None)
print(f"{n - bad}/{n} hand-encoded datagrams agree with the library's encoder/decoder")
# the C07 oracle's hand-written packet CRC-32 against the library's engine
from checks import air
from okdmr.dmrlib.etsi.crc.crc32 import CRC32
m = 0
for i in range(3000):
    d = bytes(r.choice([0, 0, 0xFF, r.getrandbits(8)]) for _ in range(r.choice([0, 1, 2, 3, 5, 8, 20, 33, 200])))
    m += 1
    if air.ref_crc32(d) != CRC32.calculate(d):
        bad += 1
        print("CRC32 MISMATCH", d.hex())
print(f"hand-written CRC-32 agrees with the library on {m} octet strings" if not bad else "CRC-32 reference disagrees")
sys.exit(1 if bad else 0)
