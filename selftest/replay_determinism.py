#!/usr/bin/env python3
"""Replay determinism: for a sample of runs per check, the digest of the generating run (generate + execute in one pristine
child) must equal the digest of the resolved case executed alone in another pristine child, and executing it twice must agree.
usage: selftest/replay_determinism.py [runs-per-arm]"""
import os, sys
V = os.path.dirname(os.path.dirname(os.path.abspath(__file__)))
sys.path.insert(0, V)
os.environ.setdefault("PYTHONHASHSEED", "0")
from dsim import core, driver, pristine

N = int(sys.argv[1]) if len(sys.argv) > 1 else 12
core.use_repo()
bad = total = 0
for pid in ["C02", "C04", "C06", "C07", "C08", "C11", "C17", "C18", "C19", "C20"]:
    chk = driver.load_check(pid)
    chk.preload()
    n = 0
    for arm, cnt in chk.arms("quick"):
        for i in sorted({0, 1, cnt // 2, cnt - 1} | {(k * 7919) % cnt for k in range(N)}):
            if i >= cnt:
                continue
            rs = core.derive(5, pid, arm, i)

            def gen_exec(_):
                case = driver._gen((chk, arm, i, rs, "quick", 5))
                res = chk.execute(case)
                return chk.resolve(case, res), res["digest"]

            case, d1 = pristine.run_in_child(gen_exec, None, 600)
            d2 = pristine.run_in_child(driver._exec, (chk, case), 600)["digest"]
            d3 = pristine.run_in_child(driver._exec, (chk, case), 600)["digest"]
            total += 1
            n += 1
            if not (d1 == d2 == d3):
                bad += 1
                print(f"{pid}/{arm}/{i}: digests differ gen+exec={d1[:12]} exec={d2[:12]} exec={d3[:12]}")
    print(f"{pid}: {n} runs, generate+execute vs. replay of the resolved case vs. second replay", flush=True)
print(f"{total - bad}/{total} replay-deterministic")
sys.exit(1 if bad else 0)
