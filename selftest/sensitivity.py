#!/usr/bin/env python3
"""Sensitivity self-test: apply every kept seeded change (seeded/<id>-*/patch.diff) to a scratch copy of /repo HEAD
(outside /repo and /verif, removed afterwards) and run the property's quick check against it with VERIF_REPO=<scratch>.
Expected: exit 1 with a VIOLATION line for every change.  usage: selftest/sensitivity.py [pattern] [tier]"""
import glob, json, os, shutil, subprocess, sys, tempfile, time
V = os.path.dirname(os.path.dirname(os.path.abspath(__file__)))
pat = sys.argv[1] if len(sys.argv) > 1 else "*"
tier = sys.argv[2] if len(sys.argv) > 2 else "quick"
seeds = [int(x) for x in sys.argv[3].split(",")] if len(sys.argv) > 3 else [0]  # detection by a seeded search is probabilistic: several seeds measure it
rows, missed = [], 0
for d in sorted(glob.glob(os.path.join(V, "seeded", pat))):
    diff = os.path.join(d, "patch.diff")
    if not os.path.exists(diff):
        continue
    meta = json.load(open(os.path.join(d, "meta.json")))
    if meta.get("out_of_scope"):
        rows.append((os.path.basename(d), "out-of-scope (documented, not expected to be caught)", 0, ""))
        print(*rows[-1], flush=True)
        continue
    pid = meta.get("detected_by") or meta["property"]  # a change outside its own property's domain is listed with the check that owns it
    S = tempfile.mkdtemp(prefix="scratch-", dir="/tmp")
    try:
        subprocess.run(f"git -C /repo archive HEAD | tar -x -C {S}", shell=True, check=True)
        a = subprocess.run(f"cd {S} && git init -q . && git apply --whitespace=nowarn {diff}", shell=True, capture_output=True, text=True)
        if a.returncode:
            rows.append((os.path.basename(d), "PATCH-DOES-NOT-APPLY", 0, "")); missed += 1; print(*rows[-1], flush=True); continue
        t0 = time.time()
        env = dict(os.environ, VERIF_REPO=S, VERIF_EVIDENCE_DIR=os.path.join(S, "ev"))
        oks, o = [], []
        for sd in seeds:
            p = subprocess.run(["./check", pid, "--tier", tier, "--seed", str(sd)], cwd=V, env=env, capture_output=True, text=True)
            o = o or [l.strip() for l in p.stdout.splitlines() if l.strip().startswith("oracle=")]
            oks.append(p.returncode == 1 and "VIOLATION property=" + pid in p.stdout)
        ok = all(oks)
        missed += not ok
        rows.append((os.path.basename(d), "caught" if ok else f"MISSED by seeds {[sd for sd, k in zip(seeds, oks) if not k]}", round(time.time() - t0), o[0][:120] if o else ""))
    finally:
        shutil.rmtree(S, ignore_errors=True)
    print(*rows[-1], flush=True)
print(f"{len(rows) - missed}/{len(rows)} seeded changes caught by the {tier} tier")
sys.exit(1 if missed else 0)
