#!/usr/bin/env python3
"""Regenerates MANIFEST.json from the table below (only checks whose module exists are listed)."""
import json, os, subprocess
V = os.path.dirname(os.path.dirname(os.path.abspath(__file__)))
BASE = "cd /repo && /venv/bin/python -m pytest -ra -q -p no:cacheprovider --timeout=900 --continue-on-collection-errors"
CHECKS = {
 "C02": ("c02", "fault_enumeration", "3 C02", "complete enumeration of channel bit-error patterns (weight 0,1,2 over 196 positions) between the real BPTC encoder and decoder over a seeded message workload, each run in a pristine forked child",
         "Every weight<=2 error pattern is injected for every message of the workload (structured unit/complement messages plus seeded random ones); exhaustive in the fault dimension, sampled in the message dimension.",
         "trusts: AirChannel bit-flip injector; message sample stands for all 2^96 messages (code is GF(2)-linear, linearity itself is not proven here)"),
 "C04": ("c04", "fault_enumeration", "3 C04", "enumeration of channel corruption (all single-bit errors, all bursts up to the check width in code bit order, weight-2/3 where guaranteed; every received word for the two small FEC words) between real PDU serialisers and parsers",
         "Indicator truthfulness under injected corruption: exhaustive over received words for slot type / EMB, exhaustive over single-bit and burst fault points per generated PDU; PDUs are a seeded sample.",
         "trusts: reference GF(2) division used to guard the injector; the per-PDU code-order layout table (verified against the library in self-test); known findings D7/D11 matched narrowly"),
 "C06": ("c06", "fault_enumeration", "3 C06", "enumeration of channel bit errors (every single error, every (16,11,4) double error, every weight<d pattern, every received word) between real block-code encoders and checkers",
         "Complete over messages, codewords, received words and the stated error weights for all seven codes.",
         "trusts: the bit-flip injector and the set arithmetic of the oracle"),
 "C07": ("c07_c08", "exploration", "3 C07", "deterministic air-interface simulation, fault-free arm: real generator -> serialise -> channel -> real parser/tracker, seeded swarm over configurations and two-slot session schedules",
         "Seeded sample of configurations (rate x confirmed x preambles x colour code x SAP x payload length with boundary bias) run through a stateful receiver that also carries earlier transmissions of the session.",
         "trusts: recording observers, oracle recomputation of CRC-32 with the library's own function"),
 "C08": ("c07_c08", "exploration", "3 C08", "deterministic air-interface simulation with fault injection (drop, dup, reorder, tx abort/overlap, bit corruption, raising observers, clock jumps) over two timeslots with a seeded scheduler",
         "Seeded search over burst histories; oracles are driven by observed callbacks and an independent record of what was delivered per slot.",
         "trusts: burst factory uses the real encoders; oracle relaxations listed in DESIGN.md"),
 "C11": ("c11", "fault_enumeration", "3 C11", "enumeration of channel symbol errors (every single-symbol error, complete value grids for double-symbol errors on seeded codewords, sampled triples) between real RS(12,9) generator and checker, with an independent GF(256) reference",
         "Exhaustive single-symbol errors and multiplier table; complete double-symbol grids on a seeded subset; sampled triple errors.",
         "trusts: shift-and-xor GF(256) reference implementation"),
 "C17": ("c17", "exploration", "3 C17", "deterministic network simulation of the real HSTRP/RRS asyncio handlers on a virtual-time event loop with seeded message loss, duplication, reordering, corruption, truncation, garbage, handler restart and clock jumps; exhaustive class sequences to length 4 (quick) / 6 (thorough)",
         "Seeded search over datagram histories and fault schedules against a reference model, plus exhaustive short class sequences; every failure is minimised and replayable.",
         "trusts: independent fixed-offset classifier; positive rules only for simulator-built unmodified datagrams"),
 "C18": ("c18", "exploration", "3 C18", "deterministic multi-peer network simulation of the real P2P and RDAC handlers sharing one real RepeaterStorage, with seeded dup/reorder/drop/garbage/truncate/peer-reset/rebind/SNMP-failure faults",
         "Seeded search over interleaved multi-peer histories against a protocol reference model.",
         "trusts: stubbed read_snmp_values (as the property prescribes), independent byte-level classifier of handler output"),
 "C19": ("c19", "exploration", "3 C19", "seeded interleavings of codec calls by several logical clients in one process, each outcome compared with the same call evaluated alone in a child forked from a pristine template under a different simulated clock and entropy state",
         "History-dependence search: pairwise coverage of (earlier entry point, later entry point).",
         "trusts: pristine template equals fresh interpreter state (validated on a sample with a really fresh interpreter)"),
 "C20": ("c20", "exploration", "3 C20", "seeded scheduled multi-client operation histories against the real RepeaterStorage, checked operation by operation against a reference model (list of dicts) with full snapshots",
         "Seeded search over operation histories of several logical clients, plus exhaustive short histories.",
         "trusts: the reference model; uuid seam"),
}
NA = [
 ("C01", "pure function of burst field values: no state, clock, peer, fault or ordering enters Burst parse/serialise; only input generation could address it, which is not this technique"),
 ("C03", "pure encode/decode functions of field values / bit strings; quantified over inputs only"),
 ("C05", "pure function of a bit string (the history-dependent part, shared CRC registers, is exercised under C19)"),
 ("C09", "pure functions of the message bits; quantified over inputs only"),
 ("C10", "pure encode/decode pair and its tables; quantified over inputs only"),
 ("C12", "byte-level build/parse round trip of pure functions; no state, peer, clock or fault"),
 ("C13", "two pure decoders and a serialiser compared on the same input bytes"),
 ("C14", "pure functions of the number encoded"),
 ("C15", "pure parse/serialise pair; termination clause is about single inputs, not histories or faults"),
 ("C16", "byte-level build/parse round trip of pure functions"),
]
checks = []
na = list(NA)
for pid, (mod, level, ref, tech, text, note) in CHECKS.items():
    if not os.path.exists(os.path.join(V, "checks", mod + ".py")) or os.environ.get("SKIP_" + pid):
        na.append((pid, "check not built yet (planned, see DESIGN.md)"))
        continue
    checks.append({
        "property_id": pid,
        "quick_cmd": f"./check {pid} --tier quick",
        "thorough_cmd": f"./check {pid} --tier thorough",
        "evidence_file": f"/verif/evidence/{pid}.json",
        "replay_cmd_template": f"./check {pid} --replay {{path}}",
        "engine": "dsim",
        "level_claimed": {"category": level, "text": text, "design_ref": "DESIGN.md §" + ref},
        "level_note": note,
        "technique": tech,
    })
m = {
 "version": 1,
 "setup_cmd": "/venv/bin/python -c \"import bitarray, numpy; print('ok')\"",
 "hooks": {
  "guard": "OK_DMRLIB_VERIF",
  "enable": "no hook exists in /repo: every seam (transport, clock, entropy, SNMP I/O) is replaced from outside by the simulator; OK_DMRLIB_VERIF is reserved and unused",
  "baseline_off_cmd": BASE, "source_commits": [], "add_only": True},
 "engines": [{"name": "dsim", "path": "/verif/dsim", "serves_properties": [c["property_id"] for c in checks],
              "kind_free_text": "deterministic simulation with fault injection: seeded scheduler, virtual-time asyncio loop, simulated network / air channel, pristine fork per run, ddmin minimiser, replay files"}],
 "checks": checks,
 "notes": "Deterministic simulation with fault injection; see DESIGN.md. ./check <id> --tier quick|thorough [--replay F]; honours VERIF_SEED, VERIF_TIER, VERIF_BUDGET_S, VERIF_REPO, VERIF_WORKERS.",
 "not_applicable": [{"property_id": p, "reason": r} for p, r in sorted(na)],
}
json.dump(m, open(os.path.join(V, "MANIFEST.json"), "w"), indent=1)
print("checks:", [c["property_id"] for c in checks])
