#!/usr/bin/env python3
"""tools/reach_report.py [evidence dir]: print, per claimed property, the function lines of its anchored files that no sampled
run reached (coverage.reach of the evidence files), with their source text -- the list to read when looking for workload blind spots."""
import glob, json, os, sys
ev = sys.argv[1] if len(sys.argv) > 1 else os.path.join(os.path.dirname(os.path.dirname(os.path.abspath(__file__))), "evidence")
for f in sorted(glob.glob(os.path.join(ev, "C*.json"))):
    e = json.load(open(f)); r = e["coverage"].get("reach")
    if not r or "anchored_function_statements" not in r:
        print(os.path.basename(f), "no reach block"); continue
    root = os.path.join(e["coverage"]["repo_under_test"], "okdmr", "dmrlib")
    print(f"== {e['property_id']}: {r['anchored_function_statements_reached']}/{r['anchored_function_statements']} function statements of anchored files reached in {r['sampled_runs']} sampled runs")
    for rel, d in sorted(r["files"].items()):
        if not d["not_reached"]:
            continue
        print(f"  {rel}: {d['reached']}/{d['function_statements']}")
        src = open(os.path.join(root, rel)).read().splitlines()
        for rg in d["not_reached"]:
            a, _, b = rg.partition("-"); a = int(a); b = int(b or a)
            for ln in range(a, b + 1):
                print(f"      {ln:4d}: {src[ln-1].rstrip()[:150]}")
