#!/usr/bin/env python3
"""tools/try_seeded.py <PID> <outdir> [tier]: for each mN.diff in outdir, confirm it in a scratch tree
(suite green with it, demo exits 1 with it and 0 without) and run ./check PID against it.
Confirmed changes are stored under /verif/seeded/<PID>-<tag>-N/ (patch.diff, demo.py, note.md, meta.json)."""
import glob, json, os, re, shutil, subprocess, sys, tempfile, time
pid, outdir = sys.argv[1], sys.argv[2]
tier = sys.argv[3] if len(sys.argv) > 3 else "quick"
tag = os.environ.get("TAG", "a")
V = os.path.dirname(os.path.dirname(os.path.abspath(__file__)))
def sh(cmd, cwd=None, env=None, timeout=3600):
    e = dict(os.environ); e.update(env or {})
    p = subprocess.run(cmd, shell=True, cwd=cwd, env=e, stdout=subprocess.PIPE, stderr=subprocess.STDOUT, text=True, timeout=timeout)
    return p.returncode, p.stdout
for diff in sorted(glob.glob(os.path.join(outdir, "m*.diff"))):
    n = re.search(r"m(\d+)\.diff", diff).group(1)
    demo = os.path.join(outdir, f"demo{n}.py"); note = os.path.join(outdir, f"note{n}.md")
    S = tempfile.mkdtemp(prefix="scratch-", dir="/tmp")
    try:
        sh(f"git -C /repo archive HEAD | tar -x -C {S}")
        rc0, o0 = sh(f"PYTHONPATH={S} /venv/bin/python {demo}", cwd=S, timeout=600)
        rc, o = sh(f"git init -q . ; git apply --whitespace=nowarn {diff}", cwd=S)
        if rc: print(f"[{pid} m{n}] patch does not apply: {o[-300:]}"); continue
        rct, ot = sh(f"PYTHONPATH={S} /venv/bin/python -m pytest -q -p no:cacheprovider -x 2>&1 | tail -3", cwd=S, timeout=900)
        suite_ok = "passed" in ot and "failed" not in ot and "error" not in ot.lower()
        rc1, o1 = sh(f"PYTHONPATH={S} /venv/bin/python {demo}", cwd=S, timeout=600)
        t0 = time.time()
        rcc, oc = sh(f"./check {pid} --tier {tier}", cwd=V, env={"VERIF_REPO": S, "VERIF_EVIDENCE_DIR": os.path.join(S, "evidence-scratch")})
        dt = time.time() - t0
        viol = [l for l in oc.splitlines() if l.startswith("VIOLATION") or l.strip().startswith("oracle=")]
        confirmed = suite_ok and rc0 == 0 and rc1 == 1
        print(f"[{pid} m{n}] suite_ok={suite_ok} demo_clean={rc0} demo_mut={rc1} confirmed={confirmed} check_exit={rcc} ({dt:.0f}s)")
        for l in viol[:4]: print("     ", l[:200])
        if rcc == 2: print(oc[-1500:])
        if confirmed:
            d = os.path.join(V, "seeded", f"{pid}-{tag}{n}")
            os.makedirs(d, exist_ok=True)
            shutil.copy(diff, os.path.join(d, "patch.diff")); shutil.copy(demo, os.path.join(d, "demo.py"))
            if os.path.exists(note): shutil.copy(note, os.path.join(d, "note.md"))
            meta = {"property": pid, "needs": open(note).read()[:1500] if os.path.exists(note) else "",
                    "confirmed": {"suite_with_patch": ot.strip().splitlines()[-1] if ot.strip() else "", "demo_exit_unpatched": rc0, "demo_exit_patched": rc1,
                                  "how": "scratch copy of /repo HEAD (git archive), git apply patch.diff, full pytest suite, demo with PYTHONPATH=<scratch>"},
                    "detected_by_quick_check": rcc == 1, "check_tier": tier, "check_wall_s": round(dt, 1),
                    "check_output": [l[:300] for l in viol[:6]], "repo_head": sh("git -C /repo rev-parse --short HEAD")[1].strip()}
            json.dump(meta, open(os.path.join(d, "meta.json"), "w"), indent=1)
    finally:
        shutil.rmtree(S, ignore_errors=True)
