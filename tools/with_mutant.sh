#!/bin/sh
# usage: tools/with_mutant.sh <patch.diff | -e 'python-expr-file'> -- <command...>
# copies /repo's tracked tree to a scratch dir, applies the patch there, runs the command with VERIF_REPO=<scratch>, removes it.
patch="$1"; shift; [ "$1" = "--" ] && shift
S=$(mktemp -d /tmp/scratch-XXXXXX)
git -C /repo archive HEAD | tar -x -C "$S"
( cd "$S" && git init -q . 2>/dev/null; git -C "$S" apply --whitespace=nowarn "$patch" ) || { echo "patch failed"; rm -rf "$S"; exit 3; }
VERIF_REPO="$S" VERIF_EVIDENCE_DIR="$S/evidence-scratch" "$@"; rc=$?
rm -rf "$S"
exit $rc
